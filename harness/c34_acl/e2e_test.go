package c34

import (
	"context"
	"fmt"
	"hash/crc32"
	"net"
	"sync"
	"testing"
	"time"

	"github.com/twmb/franz-go/pkg/kerr"
	"github.com/twmb/franz-go/pkg/kfake"
	"github.com/twmb/franz-go/pkg/kgo"
	"github.com/twmb/franz-go/pkg/kmsg"
	"github.com/twmb/franz-go/pkg/sasl/plain"

	"verifharness/internal/vh"
)

// End-to-end sample: ACLs created over the wire by a superuser on a
// SASL/PLAIN + ACL kfake cluster; decisions observed through Metadata
// (authorization error / authorized-operations bitfield), Produce, Fetch and
// InitProducerID as users a, b and as the superuser, compared with the model.

var e2eTopics = []string{"foo", "foobar", "bar", "baz"}

// operations Kafka reports for a topic resource
var topicBitOps = []kmsg.ACLOperation{opRead, opWrite, opCreate, opDelete, opAlter, opDescribe, opDescribeCfg, opAlterCfg}

var castagnoli = crc32.MakeTable(crc32.Castagnoli)

func crc32c(b []byte) uint32 { return crc32.Checksum(b, castagnoli) }

const (
	errTopicAuth   = int16(29)
	errClusterAuth = int16(31)
)

type e2eEnv struct {
	r       *vh.Run
	ctx     context.Context
	cluster *kfake.Cluster
	admin   *kgo.Client
	users   map[string]*kgo.Client
	ids     map[string][16]byte
	hostMu  sync.Mutex
	hosts   map[string]bool
}

func (e *e2eEnv) client(user, pass string) (*kgo.Client, error) {
	d := &net.Dialer{Timeout: 5 * time.Second}
	return kgo.NewClient(
		kgo.SeedBrokers(e.cluster.ListenAddrs()...),
		kgo.SASL(plain.Auth{User: user, Pass: pass}.AsMechanism()),
		kgo.RequiredAcks(kgo.AllISRAcks()),
		kgo.Dialer(func(ctx context.Context, network, addr string) (net.Conn, error) {
			c, err := d.DialContext(ctx, network, addr)
			if err == nil {
				if ta, ok := c.LocalAddr().(*net.TCPAddr); ok {
					e.hostMu.Lock()
					e.hosts[ta.IP.String()] = true
					e.hostMu.Unlock()
				}
			}
			return c, err
		}),
	)
}

// errSuperDenied: the superuser was refused an admin operation.
type errSuperDenied struct{ what string }

func (e errSuperDenied) Error() string { return e.what }

func authDenied(api string, code int16) error {
	if code == errClusterAuth {
		return errSuperDenied{fmt.Sprintf("superuser admin was refused %s with CLUSTER_AUTHORIZATION_FAILED", api)}
	}
	return fmt.Errorf("%s: %w", api, kerr.ErrorForCode(code))
}

// setupFailed records why the ACL table could not be installed.
func (e *e2eEnv) setupFailed(err error) {
	if sd, ok := err.(errSuperDenied); ok {
		e.r.Violation("e2e-superuser-denied", map[string]any{"what": sd.what})
		return
	}
	e.r.Inconclusive("e2e: " + err.Error())
}

func (e *e2eEnv) setACLs(acls []racl) error {
	del := kmsg.NewPtrDeleteACLsRequest()
	f := kmsg.NewDeleteACLsRequestFilter()
	f.ResourceType = kmsg.ACLResourceTypeAny
	f.ResourcePatternType = kmsg.ACLResourcePatternTypeAny
	f.Operation = kmsg.ACLOperationAny
	f.PermissionType = kmsg.ACLPermissionTypeAny
	del.Filters = append(del.Filters, f)
	dresp, err := del.RequestWith(e.ctx, e.admin)
	if err != nil {
		return fmt.Errorf("DeleteACLs: %w", err)
	}
	for _, res := range dresp.Results {
		if res.ErrorCode != 0 {
			return authDenied("DeleteACLs", res.ErrorCode)
		}
	}
	if len(acls) == 0 {
		return nil
	}
	cr := kmsg.NewPtrCreateACLsRequest()
	for _, a := range acls {
		v := a.real()
		c := kmsg.NewCreateACLsRequestCreation()
		c.ResourceType, c.ResourceName, c.ResourcePatternType = v.ResourceType, v.ResourceName, v.Pattern
		c.Principal, c.Host, c.Operation, c.PermissionType = v.Principal, v.Host, v.Operation, v.Permission
		cr.Creations = append(cr.Creations, c)
	}
	cresp, err := cr.RequestWith(e.ctx, e.admin)
	if err != nil {
		return fmt.Errorf("CreateACLs: %w", err)
	}
	if len(cresp.Results) != len(acls) {
		return fmt.Errorf("CreateACLs: %d results for %d creations", len(cresp.Results), len(acls))
	}
	for _, res := range cresp.Results {
		if res.ErrorCode != 0 {
			return authDenied("CreateACLs", res.ErrorCode)
		}
	}
	// read back: the stored table is what the model is evaluated on
	desc := kmsg.NewPtrDescribeACLsRequest()
	desc.ResourceType = kmsg.ACLResourceTypeAny
	desc.ResourcePatternType = kmsg.ACLResourcePatternTypeAny
	desc.Operation = kmsg.ACLOperationAny
	desc.PermissionType = kmsg.ACLPermissionTypeAny
	descResp, err := desc.RequestWith(e.ctx, e.admin)
	if err != nil {
		return fmt.Errorf("DescribeACLs: %w", err)
	}
	if descResp.ErrorCode != 0 {
		return authDenied("DescribeACLs", descResp.ErrorCode)
	}
	got := map[string]bool{}
	for _, res := range descResp.Resources {
		for _, a := range res.ACLs {
			got[racl{a.Principal, a.Host, res.ResourceType, res.ResourceName, res.ResourcePatternType == kmsg.ACLResourcePatternTypePrefixed, a.Operation, a.PermissionType == kmsg.ACLPermissionTypeAllow}.String()] = true
		}
	}
	want := map[string]bool{}
	for _, a := range acls {
		want[a.String()] = true
	}
	if len(got) != len(want) {
		return fmt.Errorf("DescribeACLs read back %d bindings, created %d", len(got), len(want))
	}
	for k := range want {
		if !got[k] {
			return fmt.Errorf("DescribeACLs: binding %s not stored", k)
		}
	}
	return nil
}

type e2eObs struct {
	metaErr  map[string]int16
	metaBits map[string]int32
	produce  map[string]int16
	fetch    map[string]int16
	initPID  int16
}

func (e *e2eEnv) observe(cl *kgo.Client) (*e2eObs, error) {
	o := &e2eObs{map[string]int16{}, map[string]int32{}, map[string]int16{}, map[string]int16{}, 0}
	m := kmsg.NewPtrMetadataRequest()
	m.IncludeTopicAuthorizedOperations = true
	for _, t := range e2eTopics {
		mt := kmsg.NewMetadataRequestTopic()
		mt.Topic = kmsg.StringPtr(t)
		m.Topics = append(m.Topics, mt)
	}
	mresp, err := m.RequestWith(e.ctx, cl)
	if err != nil {
		return nil, fmt.Errorf("Metadata: %w", err)
	}
	for _, t := range mresp.Topics {
		if t.Topic == nil {
			return nil, fmt.Errorf("Metadata: topic without name")
		}
		o.metaErr[*t.Topic] = t.ErrorCode
		o.metaBits[*t.Topic] = t.AuthorizedOperations
	}
	if len(o.metaErr) != len(e2eTopics) {
		return nil, fmt.Errorf("Metadata: %d topics answered", len(o.metaErr))
	}
	for _, t := range e2eTopics {
		// produce one non-idempotent record
		rec := kmsg.Record{Value: []byte("v")}
		rec.Length = int32(len(rec.AppendTo(nil)) - 1)
		b := kmsg.RecordBatch{PartitionLeaderEpoch: -1, Magic: 2, FirstTimestamp: 1, MaxTimestamp: 1, ProducerID: -1, ProducerEpoch: -1, FirstSequence: -1, NumRecords: 1, Records: rec.AppendTo(nil)}
		raw := b.AppendTo(nil)
		b.Length = int32(len(raw) - 12)
		b.CRC = int32(crc32c(raw[21:]))
		raw = b.AppendTo(raw[:0])
		p := kmsg.NewPtrProduceRequest()
		p.Acks = -1
		p.TimeoutMillis = 5000
		pt := kmsg.NewProduceRequestTopic()
		pt.Topic, pt.TopicID = t, e.ids[t]
		pp := kmsg.NewProduceRequestTopicPartition()
		pp.Records = raw
		pt.Partitions = append(pt.Partitions, pp)
		p.Topics = append(p.Topics, pt)
		presp, err := p.RequestWith(e.ctx, cl)
		if err != nil {
			return nil, fmt.Errorf("Produce %s: %w", t, err)
		}
		if len(presp.Topics) != 1 || len(presp.Topics[0].Partitions) != 1 {
			return nil, fmt.Errorf("Produce %s: response shape", t)
		}
		o.produce[t] = presp.Topics[0].Partitions[0].ErrorCode

		f := kmsg.NewPtrFetchRequest()
		f.MaxWaitMillis = 0
		f.MinBytes = 0
		f.MaxBytes = 1 << 20
		ft := kmsg.NewFetchRequestTopic()
		ft.Topic, ft.TopicID = t, e.ids[t]
		fp := kmsg.NewFetchRequestTopicPartition()
		fp.PartitionMaxBytes = 1 << 20
		ft.Partitions = append(ft.Partitions, fp)
		f.Topics = append(f.Topics, ft)
		fresp, err := f.RequestWith(e.ctx, cl)
		if err != nil {
			return nil, fmt.Errorf("Fetch %s: %w", t, err)
		}
		if fresp.ErrorCode != 0 || len(fresp.Topics) != 1 || len(fresp.Topics[0].Partitions) != 1 {
			return nil, fmt.Errorf("Fetch %s: response shape (code %d, %d topics)", t, fresp.ErrorCode, len(fresp.Topics))
		}
		o.fetch[t] = fresp.Topics[0].Partitions[0].ErrorCode
	}
	ip := kmsg.NewPtrInitProducerIDRequest()
	ip.ProducerID, ip.ProducerEpoch = -1, -1
	ipresp, err := ip.RequestWith(e.ctx, cl)
	if err != nil {
		return nil, fmt.Errorf("InitProducerID: %w", err)
	}
	o.initPID = ipresp.ErrorCode
	return o, nil
}

func e2eUniverse(host string) []racl {
	var u []racl
	for _, allow := range []bool{true, false} {
		for _, p := range []string{"User:a", "User:b", "User:*", "User:admin"} {
			for _, h := range []string{host, "*", "10.9.9.9"} {
				for _, op := range []kmsg.ACLOperation{opAll, opRead, opWrite, opCreate, opDelete, opAlter, opDescribe, opDescribeCfg, opAlterCfg} {
					for _, n := range []string{"foo", "foobar", "bar", "*"} {
						u = append(u, racl{p, h, tTopic, n, false, op, allow})
					}
					for _, n := range []string{"fo", "foo", "ba"} {
						u = append(u, racl{p, h, tTopic, n, true, op, allow})
					}
				}
				for _, op := range []kmsg.ACLOperation{opAll, opIdemWrite, opDescribe, opAlter} {
					u = append(u, racl{p, h, tCluster, "kafka-cluster", false, op, allow})
				}
			}
		}
	}
	return u
}

func checkE2E(t *testing.T, r *vh.Run) {
	ctx, cancel := context.WithTimeout(context.Background(), time.Duration(r.Pick(240, 2400))*time.Second)
	defer cancel()
	cluster, err := kfake.NewCluster(
		kfake.NumBrokers(1),
		kfake.EnableSASL(),
		kfake.EnableACLs(),
		kfake.Superuser("PLAIN", "admin", "admin-pw"),
		kfake.User("PLAIN", "a", "a-pw"),
		kfake.User("PLAIN", "b", "b-pw"),
		kfake.SeedTopics(1, e2eTopics...),
	)
	if err != nil {
		r.Inconclusive(fmt.Sprintf("e2e: kfake.NewCluster: %v", err))
		return
	}
	defer cluster.Close()
	e := &e2eEnv{r: r, ctx: ctx, cluster: cluster, users: map[string]*kgo.Client{}, ids: map[string][16]byte{}, hosts: map[string]bool{}}
	if e.admin, err = e.client("admin", "admin-pw"); err != nil {
		r.Inconclusive(fmt.Sprintf("e2e: admin client: %v", err))
		return
	}
	defer e.admin.Close()
	for _, u := range []string{"a", "b"} {
		cl, err := e.client(u, u+"-pw")
		if err != nil {
			r.Inconclusive(fmt.Sprintf("e2e: client %s: %v", u, err))
			return
		}
		defer cl.Close()
		e.users[u] = cl
	}
	m := kmsg.NewPtrMetadataRequest()
	for _, tn := range e2eTopics {
		mt := kmsg.NewMetadataRequestTopic()
		mt.Topic = kmsg.StringPtr(tn)
		m.Topics = append(m.Topics, mt)
	}
	mresp, err := m.RequestWith(ctx, e.admin)
	if err != nil {
		r.Inconclusive(fmt.Sprintf("e2e: admin metadata: %v", err))
		return
	}
	for _, tp := range mresp.Topics {
		if tp.ErrorCode == errTopicAuth {
			r.Violation("e2e-superuser-denied", map[string]any{"what": "superuser admin was refused Metadata (DESCRIBE) on a topic with TOPIC_AUTHORIZATION_FAILED; no ACLs installed"})
			return
		}
		if tp.ErrorCode != 0 || tp.Topic == nil {
			r.Inconclusive(fmt.Sprintf("e2e: admin metadata topic error %d", tp.ErrorCode))
			return
		}
		e.ids[*tp.Topic] = tp.TopicID
	}
	// connect the user clients once so that the client address is known
	for _, u := range []string{"a", "b"} {
		if err := e.setACLs(nil); err != nil {
			e.setupFailed(err)
			return
		}
		if _, err := e.observe(e.users[u]); err != nil {
			r.Inconclusive("e2e: warm-up " + err.Error())
			return
		}
	}
	if len(e.hosts) != 1 {
		r.Inconclusive(fmt.Sprintf("e2e: clients connect from %d different local addresses", len(e.hosts)))
		return
	}
	var host string
	for h := range e.hosts {
		host = h
	}
	r.Set("e2e_client_host", host)

	T := func(allow bool, principal, h, name string, prefixed bool, op kmsg.ACLOperation) racl {
		return racl{principal, h, tTopic, name, prefixed, op, allow}
	}
	fixed := [][]racl{
		nil,
		{T(true, "User:a", "*", "foo", false, opWrite)},
		{T(true, "User:a", "*", "foo", false, opWrite), T(false, "User:a", "*", "*", false, opWrite)},
		{T(true, "User:a", host, "foo", false, opWrite), T(false, "User:*", "*", "fo", true, opWrite)},
		{T(true, "User:a", "*", "fo", true, opRead), T(false, "User:a", "*", "foobar", false, opRead), T(true, "User:b", "10.9.9.9", "*", false, opAll)},
		{T(false, "User:*", "*", "*", false, opAll), T(false, "User:admin", "*", "*", false, opAll), {"User:admin", "*", tCluster, "kafka-cluster", false, opAll, false}},
		{{"User:b", "*", tCluster, "kafka-cluster", false, opIdemWrite, true}, T(true, "User:*", "*", "*", false, opDescribe)},
		{T(true, "User:*", "*", "*", false, opAll), T(false, "User:b", host, "ba", true, opDescribe), T(false, "User:a", "*", "foo", false, opAlterCfg)},
		{T(true, "User:a", "*", "bar", false, opAlterCfg), T(true, "User:b", "*", "bar", false, opDelete), T(false, "User:b", "*", "bar", false, opDelete)},
	}
	U := e2eUniverse(host)
	nrand := r.Pick(60, 1500)
	var judged, scen int
	for k := 0; k < len(fixed)+nrand; k++ {
		if ctx.Err() != nil {
			r.Inconclusive("e2e: watchdog context expired")
			return
		}
		var acls []racl
		if k < len(fixed) {
			acls = fixed[k]
		} else {
			rng := r.Rand("e2e", k)
			base := []kmsg.ACLOperation{opRead, opWrite, opDescribe, opWrite, opAlterCfg}[rng.IntN(5)]
			size := 1 + rng.IntN(4)
			for len(acls) < size {
				a := U[rng.IntN(len(U))]
				if a.RType == tTopic && rng.IntN(100) < 50 {
					a.Op = base
				}
				dup := false
				for _, b := range acls {
					if b == a {
						dup = true
					}
				}
				if !dup {
					acls = append(acls, a)
				}
			}
		}
		if err := e.setACLs(acls); err != nil {
			e.setupFailed(err)
			return
		}
		scen++
		ft := features(acls)
		nontrivial := false
		for _, user := range []string{"a", "b", "admin"} {
			cl := e.admin
			if user != "admin" {
				cl = e.users[user]
			}
			o, err := e.observe(cl)
			if err != nil {
				r.Inconclusive(fmt.Sprintf("e2e: user %s: %v", user, err))
				return
			}
			super := user == "admin"
			principal := "User:" + user
			model := func(rtype kmsg.ACLResourceType, name string, op kmsg.ACLOperation) bool {
				if super {
					return true
				}
				v, sd, sa := judgeOne(acls, ft, principal, host, rtype, name, op)
				if sd && sa {
					nontrivial = true
				}
				return v == vAllowed // the e2e alphabet has no empty names: never don't-care
			}
			bad := func(sig, what string) {
				r.Violation(sig, map[string]any{"acls": setString(acls), "user": user, "client_host": host, "what": what})
			}
			for _, tn := range e2eTopics {
				// Metadata
				judged++
				if !model(tTopic, tn, opDescribe) {
					if o.metaErr[tn] != errTopicAuth {
						bad("e2e-metadata-describe-not-denied", fmt.Sprintf("Metadata topic %s: model denies DESCRIBE, response code %d", tn, o.metaErr[tn]))
					}
				} else if o.metaErr[tn] != 0 {
					bad("e2e-metadata-describe-not-allowed", fmt.Sprintf("Metadata topic %s: model allows DESCRIBE, response %v", tn, kerr.ErrorForCode(o.metaErr[tn])))
				} else {
					var want int32
					for _, op := range topicBitOps {
						if model(tTopic, tn, op) {
							want |= 1 << uint(op)
						}
					}
					judged += len(topicBitOps)
					if o.metaBits[tn] != want {
						sig := "e2e-metadata-authorized-operations"
						if super {
							sig = "e2e-superuser-authorized-operations"
						}
						bad(sig, fmt.Sprintf("Metadata topic %s: authorized operations bitfield %#x, model %#x", tn, o.metaBits[tn], want))
					}
				}
				// Produce / Fetch
				judged += 2
				if w := model(tTopic, tn, opWrite); (o.produce[tn] == 0) != w || (!w && o.produce[tn] != errTopicAuth) {
					bad("e2e-produce-"+permStr(o.produce[tn] == 0)+"-model-"+permStr(w), fmt.Sprintf("Produce to %s answered code %d, model WRITE %s", tn, o.produce[tn], permStr(w)))
				}
				if w := model(tTopic, tn, opRead); (o.fetch[tn] == 0) != w || (!w && o.fetch[tn] != errTopicAuth) {
					bad("e2e-fetch-"+permStr(o.fetch[tn] == 0)+"-model-"+permStr(w), fmt.Sprintf("Fetch from %s answered code %d, model READ %s", tn, o.fetch[tn], permStr(w)))
				}
			}
			// InitProducerID (idempotent, no transactional id): IDEMPOTENT_WRITE on the
			// cluster, or WRITE on any topic
			want := vAllowed
			if !super && !model(tCluster, "kafka-cluster", opIdemWrite) {
				var why string
				var sd, sa bool
				want, why, sd, sa = judgeAny(acls, ft, principal, host, tTopic, opWrite)
				if sd && sa {
					nontrivial = true
				}
				if want == vDontCare {
					r.Count("dontcare/e2e InitProducerID: "+why, 1)
				}
			}
			if want != vDontCare {
				judged++
				got := o.initPID == 0
				switch {
				case got && want == vDenied:
					sig := "e2e-initproducerid-allowed-model-denied"
					var onlyAllow []racl
					for _, a := range acls {
						if a.Allow {
							onlyAllow = append(onlyAllow, a)
						}
					}
					if w2, _, _, _ := judgeAny(onlyAllow, features(onlyAllow), principal, host, tTopic, opWrite); w2 != vDenied {
						sig = "e2e-initproducerid-ignores-dominating-deny"
					}
					bad(sig, "InitProducerID (no transactional id) succeeded; model: no IDEMPOTENT_WRITE on the cluster and every topic WRITE ALLOW is dominated by a DENY")
				case !got && want == vAllowed:
					bad("e2e-initproducerid-denied-model-allowed", fmt.Sprintf("InitProducerID answered %v; model allows", kerr.ErrorForCode(o.initPID)))
				case !got && o.initPID != errClusterAuth:
					bad("e2e-initproducerid-wrong-error", fmt.Sprintf("InitProducerID answered code %d, want CLUSTER_AUTHORIZATION_FAILED", o.initPID))
				}
			}
		}
		if nontrivial {
			r.Distinct("e2e/" + fmt.Sprint(setString(acls)))
			r.Count("e2e_nontrivial_sets", 1)
		}
		if k == 2 {
			r.Sample(map[string]any{"kind": "e2e scenario", "acls": setString(acls), "observed": "Metadata(IncludeTopicAuthorizedOperations), Produce, Fetch per topic, InitProducerID; users a, b, admin(superuser)"})
		}
	}
	r.Eval(judged)
	r.Count("e2e_scenarios", scen)
	r.Count("e2e_judged_decisions", judged)

	// a real idempotent kgo producer that only holds WRITE on one topic
	if err := e.setACLs([]racl{T(true, "User:a", "*", "foo", false, opWrite)}); err != nil {
		e.setupFailed(err)
		return
	}
	pc, err := e.client("a", "a-pw")
	if err != nil {
		r.Inconclusive(fmt.Sprintf("e2e: producer client: %v", err))
		return
	}
	defer pc.Close()
	pctx, pcancel := context.WithTimeout(ctx, 30*time.Second)
	defer pcancel()
	res := pc.ProduceSync(pctx, &kgo.Record{Topic: "foo", Value: []byte("x")})
	r.Eval(1)
	if err := res.FirstErr(); err != nil {
		if pctx.Err() != nil {
			r.Inconclusive(fmt.Sprintf("e2e: idempotent producer with WRITE on foo did not finish: %v", err))
		} else {
			r.Violation("e2e-idempotent-producer-with-topic-write-denied", map[string]any{"acls": "ALLOW User:a * TOPIC LITERAL foo WRITE", "error": err.Error()})
		}
	}
}
