// Reference model of Apache Kafka's StandardAuthorizer decision
// procedure, written from Kafka's semantics (StandardAuthorizerData.findResult
// / authorize and Authorizer.authorizeByResourceType), independently of
// kfake's implementation.
package c34

import (
	"fmt"
	"sort"
	"strings"

	"github.com/twmb/franz-go/pkg/kfake"
	"github.com/twmb/franz-go/pkg/kmsg"
)

const (
	opAll         = kmsg.ACLOperationAll
	opRead        = kmsg.ACLOperationRead
	opWrite       = kmsg.ACLOperationWrite
	opCreate      = kmsg.ACLOperationCreate
	opDelete      = kmsg.ACLOperationDelete
	opAlter       = kmsg.ACLOperationAlter
	opDescribe    = kmsg.ACLOperationDescribe
	opClusterAct  = kmsg.ACLOperationClusterAction
	opDescribeCfg = kmsg.ACLOperationDescribeConfigs
	opAlterCfg    = kmsg.ACLOperationAlterConfigs
	opIdemWrite   = kmsg.ACLOperationIdempotentWrite

	tTopic   = kmsg.ACLResourceTypeTopic
	tGroup   = kmsg.ACLResourceTypeGroup
	tCluster = kmsg.ACLResourceTypeCluster
	tTxnID   = kmsg.ACLResourceTypeTransactionalId
)

// racl is one ACL binding of the reference model.
type racl struct {
	Principal string
	Host      string
	RType     kmsg.ACLResourceType
	Name      string
	Prefixed  bool
	Op        kmsg.ACLOperation
	Allow     bool
}

func (a racl) String() string {
	perm, pat := "DENY", "LITERAL"
	if a.Allow {
		perm = "ALLOW"
	}
	if a.Prefixed {
		pat = "PREFIXED"
	}
	return fmt.Sprintf("%s %s host=%s %s %s %q %s", perm, a.Principal, a.Host, a.RType, pat, a.Name, a.Op)
}

func (a racl) real() kfake.VerifACL {
	v := kfake.VerifACL{
		Principal: a.Principal, Host: a.Host, ResourceType: a.RType, ResourceName: a.Name,
		Pattern: kmsg.ACLResourcePatternTypeLiteral, Operation: a.Op, Permission: kmsg.ACLPermissionTypeDeny,
	}
	if a.Prefixed {
		v.Pattern = kmsg.ACLResourcePatternTypePrefixed
	}
	if a.Allow {
		v.Permission = kmsg.ACLPermissionTypeAllow
	}
	return v
}

func setString(s []racl) []string {
	out := make([]string, len(s))
	for i := range s {
		out[i] = s[i].String()
	}
	sort.Strings(out)
	return out
}

func (a *racl) whoMatches(principal, host string) bool {
	return (a.Principal == principal || a.Principal == "User:*") && (a.Host == host || a.Host == "*")
}

func (a *racl) resourceMatches(rtype kmsg.ACLResourceType, name string) bool {
	if a.RType != rtype {
		return false
	}
	if a.Prefixed {
		return strings.HasPrefix(name, a.Name)
	}
	return a.Name == name || a.Name == "*"
}

// impliedBy: does holding ALLOW for `have` imply `want` (other than have==want / ALL)?
func impliedBy(have, want kmsg.ACLOperation) bool {
	switch want {
	case opDescribe:
		return have == opRead || have == opWrite || have == opDelete || have == opAlter
	case opDescribeCfg:
		return have == opAlterCfg
	}
	return false
}

// opMatches is Kafka's findResult operation rule: ALL matches everything; a
// DENY matches only its own operation; an ALLOW also matches what it implies.
func (a *racl) opMatches(op kmsg.ACLOperation) bool {
	if a.Op == opAll || a.Op == op {
		return true
	}
	return a.Allow && impliedBy(a.Op, op)
}

// refAuthorize is the per-resource decision for a non-superuser: any matching
// DENY denies; otherwise a matching ALLOW permits; otherwise denied.
// sawDeny/sawAllow report whether a DENY / an ALLOW matched the query.
func refAuthorize(acls []racl, principal, host string, rtype kmsg.ACLResourceType, name string, op kmsg.ACLOperation, skipEmpty bool) (allowed, sawDeny, sawAllow bool) {
	for i := range acls {
		a := &acls[i]
		if skipEmpty && a.Name == "" {
			continue
		}
		if !a.whoMatches(principal, host) || !a.resourceMatches(rtype, name) || !a.opMatches(op) {
			continue
		}
		if a.Allow {
			sawAllow = true
		} else {
			sawDeny = true
		}
	}
	return sawAllow && !sawDeny, sawDeny, sawAllow
}

// Variants of the any-resource decision on points where the statement (or
// my knowledge of Kafka) does not decide; a query is judged only when all
// applicable variants agree.
type anyFlags struct {
	implied    bool // ALLOW entries also count through implied operations
	emptyMode  int  // how patterns with the empty name are treated
	wildImmune bool // ALLOW literal "*" is only cancelled by DENY literal "*"
}

const (
	emptyStartsWith = iota // "" is a prefix of everything: DENY prefixed "" dominates every ALLOW
	emptyNever             // Kafka's prefix walk never produces "": DENY prefixed "" dominates nothing
	emptyRemoved           // such ACLs cannot exist in Kafka: ignore them
)

func hasPrefixDeny(denyPre []string, x string, mode int) bool {
	for _, p := range denyPre {
		if p == "" {
			if mode == emptyStartsWith {
				return true
			}
			continue
		}
		if strings.HasPrefix(x, p) {
			return true
		}
	}
	return false
}

// refAny is Kafka's authorizeByResourceType: is there an ALLOW pattern for
// (principal, host, op) that no matching DENY pattern dominates?
func refAny(acls []racl, principal, host string, rtype kmsg.ACLResourceType, op kmsg.ACLOperation, f anyFlags) (allowed, sawDeny, sawAllow bool) {
	// fixed-size scratch (sets are small); spills to the heap only beyond 8
	var b0, b1, b2, b3 [8]string
	denyLit, denyPre, allowLit, allowPre := b0[:0], b1[:0], b2[:0], b3[:0]
	var denyWild, allowWild bool
	for i := range acls {
		a := &acls[i]
		if a.RType != rtype || !a.whoMatches(principal, host) {
			continue
		}
		if a.Name == "" && f.emptyMode == emptyRemoved {
			continue
		}
		m := a.Op == opAll || a.Op == op
		if !m && a.Allow && f.implied {
			m = impliedBy(a.Op, op)
		}
		if !m {
			continue
		}
		switch {
		case !a.Allow && !a.Prefixed && a.Name == "*":
			denyWild = true
		case !a.Allow && !a.Prefixed:
			denyLit = append(denyLit, a.Name)
		case !a.Allow:
			denyPre = append(denyPre, a.Name)
		case !a.Prefixed && a.Name == "*":
			allowWild = true
		case !a.Prefixed:
			allowLit = append(allowLit, a.Name)
		default:
			allowPre = append(allowPre, a.Name)
		}
	}
	sawDeny = denyWild || len(denyLit)+len(denyPre) > 0
	sawAllow = allowWild || len(allowLit)+len(allowPre) > 0
	if denyWild {
		return false, sawDeny, sawAllow
	}
	if allowWild {
		if f.wildImmune || len(denyLit)+len(denyPre) == 0 {
			return true, sawDeny, sawAllow
		}
	}
	for _, l := range allowLit {
		dominated := hasPrefixDeny(denyPre, l, f.emptyMode)
		for _, d := range denyLit {
			if d == l {
				dominated = true
			}
		}
		if !dominated {
			return true, sawDeny, sawAllow
		}
	}
	for _, q := range allowPre {
		if !hasPrefixDeny(denyPre, q, f.emptyMode) {
			return true, sawDeny, sawAllow
		}
	}
	return false, sawDeny, sawAllow
}

type verdict int

const (
	vDenied verdict = iota
	vAllowed
	vDontCare
)

type setFeatures struct {
	hasEmpty     bool
	hasWildAllow bool
}

func features(acls []racl) (f setFeatures) {
	for i := range acls {
		if acls[i].Name == "" {
			f.hasEmpty = true
		}
		if acls[i].Allow && !acls[i].Prefixed && acls[i].Name == "*" {
			f.hasWildAllow = true
		}
	}
	return f
}

// judgeAny evaluates every applicable variant; why names the first point of
// disagreement.
func judgeAny(acls []racl, ft setFeatures, principal, host string, rtype kmsg.ACLResourceType, op kmsg.ACLOperation) (v verdict, why string, sawDeny, sawAllow bool) {
	base, sd, sa := refAny(acls, principal, host, rtype, op, anyFlags{implied: false, emptyMode: emptyStartsWith, wildImmune: true})
	sawDeny, sawAllow = sd, sa
	res := func(b bool) verdict {
		if b {
			return vAllowed
		}
		return vDenied
	}
	nmodes, nwilds := 1, 1
	if ft.hasEmpty {
		nmodes = 3
	}
	if ft.hasWildAllow {
		nwilds = 2
	}
	for _, implied := range [2]bool{false, true} {
		for mode := emptyStartsWith; mode < nmodes; mode++ {
			for w := 0; w < nwilds; w++ {
				wi := w == 0
				got, _, sa2 := refAny(acls, principal, host, rtype, op, anyFlags{implied, mode, wi})
				if implied && sa2 {
					sawAllow = true
				}
				if got != base {
					switch {
					case implied && mode == emptyStartsWith && wi:
						why = "any-resource check depends on implied operations"
					case mode != emptyStartsWith:
						why = "empty-name pattern"
					default:
						why = "ALLOW literal * against a specific DENY"
					}
					return vDontCare, why, sawDeny, sawAllow
				}
			}
		}
	}
	return res(base), "", sawDeny, sawAllow
}

// judgeOne is the per-resource verdict; only empty-name patterns (which
// Kafka refuses to store) make it a don't-care.
func judgeOne(acls []racl, ft setFeatures, principal, host string, rtype kmsg.ACLResourceType, name string, op kmsg.ACLOperation) (v verdict, sawDeny, sawAllow bool) {
	a, sd, sa := refAuthorize(acls, principal, host, rtype, name, op, false)
	if ft.hasEmpty {
		if b, _, _ := refAuthorize(acls, principal, host, rtype, name, op, true); b != a {
			return vDontCare, sd, sa
		}
	}
	if a {
		return vAllowed, sd, sa
	}
	return vDenied, sd, sa
}
