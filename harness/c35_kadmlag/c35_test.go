// C35 — kadm group lag is computed exactly.
//
// Monitor: a reference implementation of the property statement observes
// kadm.CalculateGroupLag and kadm.CalculateGroupLagWithStartOffsets over
// generated (DescribedGroup, OffsetResponses, start ListedOffsets, end
// ListedOffsets) inputs with arbitrary missing entries and errors.
package c35

import (
	"errors"
	"fmt"
	"math/rand/v2"
	"reflect"
	"runtime"
	"sort"
	"strings"
	"sync"
	"sync/atomic"
	"testing"
	"unsafe"

	"github.com/twmb/franz-go/pkg/kadm"
	"github.com/twmb/franz-go/pkg/kerr"
	"github.com/twmb/franz-go/pkg/kmsg"

	"verifharness/internal/vh"
)

type tp struct {
	T string
	P int32
}

// ---------------------------------------------------------------------------
// Reference: the property statement, nothing else.

type want struct {
	lag int64 // -1 means "error case"
	err bool
}

// refLag is the lag of one partition according to the statement. The inputs
// are what the three input maps say about this partition.
func refLag(commit kadm.OffsetResponse, hasCommit bool, start kadm.ListedOffset, hasStart bool, end kadm.ListedOffset, hasEnd bool) want {
	// "The lag is -1 with a non-nil error exactly when the end offset is
	// missing or errored or the commit errored"
	if !hasEnd || end.Err != nil || (hasCommit && commit.Err != nil) {
		return want{-1, true}
	}
	var lag int64
	switch {
	case hasCommit && commit.At >= 0: // "the end offset minus the committed offset"
		lag = end.Offset - commit.At
	case hasStart && start.Err == nil: // "or minus the start offset ... when nothing is committed"
		lag = end.Offset - start.Offset
	default: // "(else the end offset itself)"
		lag = end.Offset
	}
	if lag < 0 { // "floored at zero"
		lag = 0
	}
	return want{lag, false}
}

// ---------------------------------------------------------------------------
// Building DescribedGroupMember.Join / Assigned: kadm has no constructor for
// GroupMemberMetadata / GroupMemberAssignment (struct{ i any }), so the value
// is stored through the struct's only field after checking the layout.

func layoutOK() error {
	for _, t := range []reflect.Type{reflect.TypeOf(kadm.GroupMemberAssignment{}), reflect.TypeOf(kadm.GroupMemberMetadata{})} {
		var a any
		if t.Kind() != reflect.Struct || t.NumField() != 1 || t.Field(0).Type.Kind() != reflect.Interface ||
			t.Field(0).Type.NumMethod() != 0 || t.Size() != unsafe.Sizeof(a) || t.Field(0).Offset != 0 {
			return fmt.Errorf("%v is not struct{ any }", t)
		}
	}
	var m kadm.DescribedGroupMember
	a := &kmsg.ConsumerMemberAssignment{}
	j := &kmsg.ConsumerMemberMetadata{}
	setAssigned(&m, a)
	setJoin(&m, j)
	if got, ok := m.Assigned.AsConsumer(); !ok || got != a {
		return errors.New("Assigned.AsConsumer does not return the stored assignment")
	}
	if got, ok := m.Join.AsConsumer(); !ok || got != j {
		return errors.New("Join.AsConsumer does not return the stored metadata")
	}
	setAssigned(&m, []byte{1})
	if _, ok := m.Assigned.AsConsumer(); ok {
		return errors.New("raw assignment reads back as consumer")
	}
	return nil
}

func setAssigned(m *kadm.DescribedGroupMember, v any) { *(*any)(unsafe.Pointer(&m.Assigned)) = v }
func setJoin(m *kadm.DescribedGroupMember, v any)     { *(*any)(unsafe.Pointer(&m.Join)) = v }

// ---------------------------------------------------------------------------
// Generator.

type input struct {
	group    kadm.DescribedGroup
	commit   kadm.OffsetResponses
	start    kadm.ListedOffsets
	end      kadm.ListedOffsets
	assigned map[tp]bool
	feat     map[string]bool
}

var someErrs = []error{kerr.UnknownTopicOrPartition, kerr.NotLeaderForPartition, kerr.CoordinatorLoadInProgress, kerr.GroupAuthorizationFailed, errors.New("harness: synthetic error")}

func gen(rng *rand.Rand) *input {
	in := &input{assigned: map[tp]bool{}, feat: map[string]bool{}}
	f := func(name string) { in.feat[name] = true }
	pick := func(n int) int { return rng.IntN(n) }
	nTopics := 1 + pick(4)
	topics := []string{"a", "bb", "c-c", "d", "e"}[:nTopics]
	nparts := map[string]int{}
	for _, t := range topics {
		nparts[t] = 1 + pick(5)
	}
	all := func(t string) []int32 {
		ps := make([]int32, nparts[t])
		for i := range ps {
			ps[i] = int32(i)
		}
		return ps
	}

	// --- group
	in.group = kadm.DescribedGroup{Group: "g", State: "Stable", ProtocolType: "consumer", Protocol: "range"}
	nMembers := 0
	switch pick(6) {
	case 0:
		in.group.State = "Empty"
		f("group-empty")
	default:
		nMembers = 1 + pick(4)
	}
	for mi := 0; mi < nMembers; mi++ {
		m := kadm.DescribedGroupMember{MemberID: fmt.Sprintf("m%d", mi), ClientID: "c", ClientHost: "h"}
		join := &kmsg.ConsumerMemberMetadata{}
		for _, t := range topics {
			if pick(3) > 0 {
				join.Topics = append(join.Topics, t)
			}
		}
		if pick(8) == 0 {
			join.Topics = append(join.Topics, "joined-only")
			f("join-topic-unknown-elsewhere")
		}
		switch pick(10) {
		case 0:
			setJoin(&m, []byte("raw-metadata"))
		case 1:
			// zero value: Join holds nothing
		default:
			setJoin(&m, join)
		}
		switch k := pick(10); {
		case k == 0:
			setAssigned(&m, []byte("undecodable"))
			f("member-raw-assignment")
		case k == 1:
			setAssigned(&m, &kmsg.ConnectMemberAssignment{})
			f("member-connect-assignment")
		case k == 2:
			f("member-nil-assignment") // zero value
		case k <= 4:
			setAssigned(&m, &kmsg.ConsumerMemberAssignment{}) // rebalancing: joined, nothing assigned
			f("member-rebalancing")
		default:
			a := &kmsg.ConsumerMemberAssignment{}
			for _, t := range topics {
				if pick(3) == 0 {
					continue
				}
				at := kmsg.ConsumerMemberAssignmentTopic{Topic: t}
				for _, p := range all(t) {
					// mostly split partitions between members, sometimes overlap
					if int(p)%nMembers == mi || pick(12) == 0 {
						if in.assigned[tp{t, p}] {
							f("partition-assigned-to-two-members")
						}
						at.Partitions = append(at.Partitions, p)
						in.assigned[tp{t, p}] = true
					}
				}
				if pick(10) == 0 { // a partition nothing else knows about
					at.Partitions = append(at.Partitions, 9)
					in.assigned[tp{t, 9}] = true
					f("assigned-partition-unknown-elsewhere")
				}
				if len(at.Partitions) > 0 || pick(4) == 0 {
					a.Topics = append(a.Topics, at)
				}
			}
			setAssigned(&m, a)
			f("member-assigned")
		}
		in.group.Members = append(in.group.Members, m)
	}

	// --- end offsets
	endOf := map[tp]int64{}
	if pick(15) == 0 {
		f("end-nil")
	} else {
		in.end = kadm.ListedOffsets{}
		for _, t := range topics {
			if pick(7) == 0 {
				f("end-topic-missing")
				continue
			}
			if pick(25) == 0 { // ListEndOffsets' shape for a topic that failed to load
				in.end[t] = map[int32]kadm.ListedOffset{-1: {Topic: t, Partition: -1, Err: kerr.UnknownTopicOrPartition}}
				f("end-topic-load-error")
				continue
			}
			m := map[int32]kadm.ListedOffset{}
			in.end[t] = m
			for _, p := range all(t) {
				switch k := pick(10); {
				case k == 0:
					f("end-partition-missing")
				case k == 1:
					m[p] = kadm.ListedOffset{Topic: t, Partition: p, Timestamp: -1, Offset: []int64{-1, 0, 40}[pick(3)], LeaderEpoch: -1, Err: someErrs[pick(len(someErrs))]}
					f("end-partition-error")
				default:
					o := int64(pick(100))
					if pick(6) == 0 {
						o = 0
					}
					if pick(40) == 0 {
						o = 1<<62 + int64(pick(1000))
					}
					m[p] = kadm.ListedOffset{Topic: t, Partition: p, Timestamp: -1, Offset: o, LeaderEpoch: int32(pick(5))}
					endOf[tp{t, p}] = o
				}
			}
		}
	}
	near := func(k tp) int64 { // an offset around the end offset: below, equal, above
		e, ok := endOf[k]
		if !ok {
			return int64(pick(100))
		}
		switch pick(6) {
		case 0:
			return e
		case 1:
			return e + 1 + int64(pick(5))
		case 2:
			return 0
		default:
			if e == 0 {
				return 0
			}
			return rng.Int64N(e + 1)
		}
	}

	// --- start offsets
	if pick(4) == 0 {
		f("start-nil")
	} else {
		in.start = kadm.ListedOffsets{}
		for _, t := range topics {
			if pick(6) == 0 {
				f("start-topic-missing")
				continue
			}
			m := map[int32]kadm.ListedOffset{}
			in.start[t] = m
			for _, p := range all(t) {
				switch k := pick(10); {
				case k == 0:
					f("start-partition-missing")
				case k == 1:
					m[p] = kadm.ListedOffset{Topic: t, Partition: p, Timestamp: -1, Offset: []int64{-1, 0, 7}[pick(3)], LeaderEpoch: -1, Err: someErrs[pick(len(someErrs))]}
					f("start-partition-error")
				default:
					o := near(tp{t, p})
					if e, ok := endOf[tp{t, p}]; ok && o > e {
						f("start-above-end")
					}
					m[p] = kadm.ListedOffset{Topic: t, Partition: p, Timestamp: -1, Offset: o, LeaderEpoch: -1}
				}
			}
		}
	}

	// --- commits
	if pick(15) == 0 {
		f("commit-nil")
	} else {
		in.commit = kadm.OffsetResponses{}
		ctopics := topics
		if pick(8) == 0 {
			ctopics = append(append([]string{}, topics...), "committed-only")
			f("commit-topic-unknown-elsewhere")
		}
		for _, t := range ctopics {
			if pick(5) == 0 {
				f("commit-topic-missing")
				continue
			}
			if pick(30) == 0 {
				in.commit[t] = nil
				f("commit-topic-nil-map")
				continue
			}
			m := map[int32]kadm.OffsetResponse{}
			in.commit[t] = m
			ps := all(t)
			if pick(10) == 0 {
				ps = append(ps, 9, 17) // committed partitions nothing else knows about
			}
			for _, p := range ps {
				k := tp{t, p}
				or := kadm.OffsetResponse{Offset: kadm.Offset{Topic: t, Partition: p, At: -1, LeaderEpoch: -1}}
				switch c := pick(10); {
				case c <= 1:
					f("commit-partition-missing")
					continue
				case c == 2:
					f("commit-present-but-nothing-committed") // At == -1
				case c == 3:
					or.Err = someErrs[pick(len(someErrs))]
					if pick(2) == 0 {
						or.At = near(k)
					}
					f("commit-error")
				default:
					or.At = near(k)
					or.LeaderEpoch = int32(pick(4))
					or.Metadata = "md"
					if e, ok := endOf[k]; ok && or.At > e {
						f("commit-above-end")
					}
				}
				if !in.assigned[k] {
					f("commit-for-unassigned-partition")
				}
				m[p] = or
			}
		}
	}
	return in
}

func (in *input) shape() string {
	var fs []string
	for k := range in.feat {
		fs = append(fs, k)
	}
	sort.Strings(fs)
	return strings.Join(fs, ",")
}

// describe renders an input as a replayable witness.
func (in *input) describe() map[string]any {
	var members []string
	for _, m := range in.group.Members {
		s := m.MemberID + ": join="
		if j, ok := m.Join.AsConsumer(); ok {
			s += fmt.Sprint(j.Topics)
		} else {
			s += "non-consumer"
		}
		s += " assigned="
		if a, ok := m.Assigned.AsConsumer(); ok {
			for _, t := range a.Topics {
				s += fmt.Sprintf("%s%v ", t.Topic, t.Partitions)
			}
		} else {
			s += "non-consumer"
		}
		members = append(members, s)
	}
	lo := func(l kadm.ListedOffsets) any {
		if l == nil {
			return nil
		}
		out := map[string]string{}
		for t, ps := range l {
			var keys []int
			for p := range ps {
				keys = append(keys, int(p))
			}
			sort.Ints(keys)
			s := ""
			for _, p := range keys {
				o := ps[int32(p)]
				if o.Err != nil {
					s += fmt.Sprintf("%d:{Offset:%d Err:%v} ", p, o.Offset, o.Err)
				} else {
					s += fmt.Sprintf("%d:%d ", p, o.Offset)
				}
			}
			out[t] = s
		}
		return out
	}
	var commits any
	if in.commit != nil {
		out := map[string]string{}
		for t, ps := range in.commit {
			var keys []int
			for p := range ps {
				keys = append(keys, int(p))
			}
			sort.Ints(keys)
			s := ""
			if ps == nil {
				s = "(nil map)"
			}
			for _, p := range keys {
				o := ps[int32(p)]
				if o.Err != nil {
					s += fmt.Sprintf("%d:{At:%d Err:%v} ", p, o.At, o.Err)
				} else {
					s += fmt.Sprintf("%d:%d ", p, o.At)
				}
			}
			out[t] = s
		}
		commits = out
	}
	return map[string]any{"group_state": in.group.State, "members": members, "commits(At)": commits, "start_offsets": lo(in.start), "end_offsets": lo(in.end)}
}

// directed returns small hand-written inputs.
func directed() []*input {
	lo := func(t string, p int32, o int64, err error) kadm.ListedOffset {
		return kadm.ListedOffset{Topic: t, Partition: p, Timestamp: -1, Offset: o, LeaderEpoch: -1, Err: err}
	}
	co := func(t string, p int32, at int64, err error) kadm.OffsetResponse {
		return kadm.OffsetResponse{Offset: kadm.Offset{Topic: t, Partition: p, At: at, LeaderEpoch: -1}, Err: err}
	}
	member := func(parts ...int32) kadm.DescribedGroupMember {
		m := kadm.DescribedGroupMember{MemberID: "m0"}
		setJoin(&m, &kmsg.ConsumerMemberMetadata{Topics: []string{"t"}})
		setAssigned(&m, &kmsg.ConsumerMemberAssignment{Topics: []kmsg.ConsumerMemberAssignmentTopic{{Topic: "t", Partitions: parts}}})
		return m
	}
	asg := func(parts ...int32) map[tp]bool {
		m := map[tp]bool{}
		for _, p := range parts {
			m[tp{"t", p}] = true
		}
		return m
	}
	stable := func(ms ...kadm.DescribedGroupMember) kadm.DescribedGroup {
		return kadm.DescribedGroup{Group: "g", State: "Stable", ProtocolType: "consumer", Members: ms}
	}
	return []*input{
		{ // nothing committed: end - start with start offsets, end without
			group: stable(member(0, 1)), assigned: asg(0, 1), feat: map[string]bool{"directed": true},
			end:   kadm.ListedOffsets{"t": {0: lo("t", 0, 10, nil), 1: lo("t", 1, 20, nil)}},
			start: kadm.ListedOffsets{"t": {0: lo("t", 0, 4, nil)}},
		},
		{ // commit above end -> 0; commit error -> -1; end missing -> -1
			group: stable(member(0, 1, 2)), assigned: asg(0, 1, 2), feat: map[string]bool{"directed": true},
			commit: kadm.OffsetResponses{"t": {0: co("t", 0, 15, nil), 1: co("t", 1, -1, kerr.CoordinatorLoadInProgress), 2: co("t", 2, 3, nil)}},
			end:    kadm.ListedOffsets{"t": {0: lo("t", 0, 10, nil), 1: lo("t", 1, 10, nil)}},
			start:  kadm.ListedOffsets{"t": {0: lo("t", 0, 12, nil), 1: lo("t", 1, 0, nil), 2: lo("t", 2, 0, nil)}},
		},
		{ // Empty group: committed partition t/0, plus listed partition t/1 whose END offset errored while its start offset is known
			group:    kadm.DescribedGroup{Group: "g", State: "Empty", ProtocolType: "consumer"},
			assigned: asg(), feat: map[string]bool{"directed": true},
			commit: kadm.OffsetResponses{"t": {0: co("t", 0, 5, nil)}},
			end:    kadm.ListedOffsets{"t": {0: lo("t", 0, 10, nil), 1: lo("t", 1, 40, kerr.NotLeaderForPartition)}},
			start:  kadm.ListedOffsets{"t": {0: lo("t", 0, 0, nil), 1: lo("t", 1, 3, nil)}},
		},
	}
}

// ---------------------------------------------------------------------------

type failer struct {
	r    *vh.Run
	n    atomic.Int64
	seen sync.Map
}

// fail records a violation; the (expensive) witness is rendered only the
// first time a signature is seen.
func (f *failer) fail(sig string, detail func() any) {
	f.n.Add(1)
	if _, dup := f.seen.LoadOrStore(sig, true); dup {
		return
	}
	f.r.Violation(sig, detail())
}

type stats struct {
	evals, judgedParts, extras, errParts, floored, usedStart, usedCommit, usedEnd int
}

func lookupCommit(c kadm.OffsetResponses, k tp) (kadm.OffsetResponse, bool) {
	if c == nil || c[k.T] == nil {
		return kadm.OffsetResponse{}, false
	}
	o, ok := c[k.T][k.P]
	return o, ok
}
func lookupListed(l kadm.ListedOffsets, k tp) (kadm.ListedOffset, bool) {
	if l == nil || l[k.T] == nil {
		return kadm.ListedOffset{}, false
	}
	o, ok := l[k.T][k.P]
	return o, ok
}

// judge compares one returned GroupLag with the statement.
func judge(f *failer, st *stats, fn string, in *input, start kadm.ListedOffsets, got kadm.GroupLag) {
	witness := func(extra map[string]any) func() any {
		return func() any {
			d := in.describe()
			if start == nil {
				d["start_offsets"] = nil
			}
			d["function"] = fn
			for k, v := range extra {
				d[k] = v
			}
			return d
		}
	}
	// S: every partition assigned to a member (consumer assignment) or committed by the group
	S := map[tp]bool{}
	for k := range in.assigned {
		S[k] = true
	}
	for t, ps := range in.commit {
		for p := range ps {
			S[tp{t, p}] = true
		}
	}
	// exactly once: present under its own key, filed under the right topic/partition, once in Sorted()
	sorted := got.Sorted()
	seen := map[tp]int{}
	for _, l := range sorted {
		seen[tp{l.Topic, l.Partition}]++
	}
	total := 0
	for t, ps := range got {
		for p, l := range ps {
			total++
			if l.Topic != t || l.Partition != p {
				f.fail(fn+": entry filed under another topic/partition than it names", witness(map[string]any{"map_key": fmt.Sprintf("%s/%d", t, p), "entry": fmt.Sprintf("%s/%d", l.Topic, l.Partition)}))
			}
		}
	}
	if len(sorted) != total {
		f.fail(fn+": Sorted() does not list each reported partition exactly once", witness(map[string]any{"sorted": len(sorted), "entries": total}))
	}
	for k := range S {
		l, ok := got.Lookup(k.T, k.P)
		if _, inMap := got[k.T][k.P]; !ok || !inMap {
			f.fail(fn+": assigned or committed partition missing from the result",
				witness(map[string]any{"partition": fmt.Sprintf("%s/%d", k.T, k.P), "assigned": in.assigned[k], "committed": hasCommitKey(in, k)}))
			continue
		}
		if seen[k] != 1 {
			f.fail(fn+": assigned or committed partition not reported exactly once", witness(map[string]any{"partition": fmt.Sprintf("%s/%d", k.T, k.P), "times_in_Sorted": seen[k]}))
		}
		st.judgedParts++
		c, hasC := lookupCommit(in.commit, k)
		s, hasS := lookupListed(start, k)
		e, hasE := lookupListed(in.end, k)
		w := refLag(c, hasC, s, hasS, e, hasE)
		compare(f, st, fn, "", k, w, l, witness)
		if !w.err {
			switch {
			case hasC && c.At >= 0:
				st.usedCommit++
			case hasS && s.Err == nil:
				st.usedStart++
			default:
				st.usedEnd++
			}
		}
	}
	// partitions the result reports although they are neither assigned nor
	// committed (kadm adds the remaining listed partitions of every topic of
	// interest): the statement does not say whether they appear; their lag
	// and error are judged by the same rule with "nothing committed".
	for t, ps := range got {
		for p, l := range ps {
			k := tp{t, p}
			if S[k] {
				continue
			}
			st.extras++
			s, hasS := lookupListed(start, k)
			e, hasE := lookupListed(in.end, k)
			w := refLag(kadm.OffsetResponse{}, false, s, hasS, e, hasE)
			compare(f, st, fn, "unassigned+uncommitted listed partition: ", k, w, l, witness)
		}
	}
	// totals = sum of the non-negative lags actually reported
	var sum int64
	byTopic := map[string]int64{}
	for t, ps := range got {
		byTopic[t] += 0
		for _, l := range ps {
			if l.Lag >= 0 {
				sum += l.Lag
				byTopic[t] += l.Lag
			}
		}
	}
	if tot := got.Total(); tot != sum {
		f.fail(fn+": Total() is not the sum of the non-negative lags", witness(map[string]any{"Total": tot, "sum": sum}))
	}
	tbt := got.TotalByTopic()
	for t, w := range byTopic {
		g, ok := tbt[t]
		if !ok || g.Lag != w || g.Topic != t {
			f.fail(fn+": TotalByTopic() is not the per-topic sum of the non-negative lags", witness(map[string]any{"topic": t, "got": fmt.Sprintf("%+v present=%v", g, ok), "sum": w}))
		}
	}
	for t, g := range tbt {
		if _, ok := byTopic[t]; !ok && g.Lag != 0 {
			f.fail(fn+": TotalByTopic() reports lag for a topic without reported partitions", witness(map[string]any{"topic": t, "lag": g.Lag}))
		}
	}
	st.evals++
}

func hasCommitKey(in *input, k tp) bool { _, ok := lookupCommit(in.commit, k); return ok }

func compare(f *failer, st *stats, fn, class string, k tp, w want, l kadm.GroupMemberLag, witness func(map[string]any) func() any) {
	part := fmt.Sprintf("%s/%d", k.T, k.P)
	gotS := fmt.Sprintf("Lag=%d Err=%v", l.Lag, l.Err)
	switch {
	case w.err:
		st.errParts++
		if l.Lag != -1 || l.Err == nil {
			sig := "end offset missing/errored or commit errored, but result is not (Lag -1, non-nil Err)"
			f.fail(fn+": "+class+sig, witness(map[string]any{"partition": part, "got": gotS, "want": "Lag=-1 Err!=nil"}))
		}
	case l.Err != nil || l.Lag == -1:
		f.fail(fn+": "+class+"Lag -1 / non-nil Err although end offset is known and commit did not error",
			witness(map[string]any{"partition": part, "got": gotS, "want": fmt.Sprintf("Lag=%d Err=nil", w.lag)}))
	case l.Lag != w.lag:
		f.fail(fn+": "+class+"Lag differs from the statement's formula",
			witness(map[string]any{"partition": part, "got": gotS, "want": fmt.Sprintf("Lag=%d Err=nil", w.lag)}))
	default:
		if w.lag == 0 {
			st.floored++
		}
	}
}

func TestCheck(t *testing.T) {
	r := vh.Start(t, "C35")
	if err := layoutOK(); err != nil {
		r.Inconclusive("cannot construct DescribedGroupMember.Join/Assigned from outside kadm: " + err.Error())
		r.Finish("exploration", "nothing judged")
		return
	}
	f := &failer{r: r}
	workers := runtime.NumCPU()

	// a few hand-written inputs first, so that witnesses are small
	var dst stats
	for i, in := range directed() {
		a := kadm.CalculateGroupLag(in.group, in.commit, in.end)
		judge(f, &dst, "CalculateGroupLag", in, nil, a)
		b := kadm.CalculateGroupLagWithStartOffsets(in.group, in.commit, in.start, in.end)
		judge(f, &dst, "CalculateGroupLagWithStartOffsets", in, in.start, b)
		r.Distinct(fmt.Sprintf("directed-%d", i))
	}
	r.Eval(dst.evals)
	r.Count("directed_inputs", len(directed()))
	n := r.Pick(300_000, 6_000_000)
	chunk := 2000
	var nontrivial atomic.Int64
	vh.Parallel(n/chunk, workers, func(c int) {
		if r.Violations() >= 10 {
			return
		}
		var st stats
		shapes := map[string]bool{}
		for i := 0; i < chunk; i++ {
			rng := r.Rand("c35", c*chunk+i)
			in := gen(rng)
			var a, b kadm.GroupLag
			if p := vh.Catch(func() { a = kadm.CalculateGroupLag(in.group, in.commit, in.end) }); p != nil {
				r.Count("dontcare_panics", 1) // the statement does not say "never panics"
				continue
			}
			judge(f, &st, "CalculateGroupLag", in, nil, a)
			if p := vh.Catch(func() { b = kadm.CalculateGroupLagWithStartOffsets(in.group, in.commit, in.start, in.end) }); p != nil {
				r.Count("dontcare_panics", 1)
				continue
			}
			judge(f, &st, "CalculateGroupLagWithStartOffsets", in, in.start, b)
			if len(in.feat) > 0 && (len(in.assigned) > 0 || len(in.commit) > 0) {
				shapes[in.shape()] = true
				nontrivial.Add(1)
			}
			if c == 0 && i < 3 {
				d := in.describe()
				d["kind"] = "generated input"
				d["result_with_start"] = fmt.Sprintf("total=%d entries=%d", b.Total(), len(b.Sorted()))
				r.Sample(d)
			}
		}
		for s := range shapes {
			r.DistinctHash(s)
		}
		r.Eval(st.evals)
		r.Count("partitions_judged_assigned_or_committed", st.judgedParts)
		r.Count("partitions_reported_but_neither_assigned_nor_committed", st.extras)
		r.Count("partitions_error_case", st.errParts)
		r.Count("partitions_lag_zero", st.floored)
		r.Count("lag_from_commit", st.usedCommit)
		r.Count("lag_from_start", st.usedStart)
		r.Count("lag_from_end_only", st.usedEnd)
	})
	r.Count("inputs", n/chunk*chunk)
	r.Count("inputs_nontrivial", int(nontrivial.Load()))
	r.Set("exhaustive", false)
	r.Finish("exploration",
		"cases: seeded random inputs over <= 4 topics x <= 5 partitions: groups that are Empty or have 1-4 members whose assignment is a consumer assignment / empty (rebalancing) / connect / raw bytes / unset and whose join metadata is consumer / raw / unset; commits, start and end offsets each nil, missing a topic, missing a partition, errored, or present with offsets below/at/above the end offset (incl. > 2^62), commits for unassigned and unknown partitions, At=-1 commits, ListEndOffsets' {-1: err} topic shape. Each input is given to CalculateGroupLag and to CalculateGroupLagWithStartOffsets; one evaluation = one returned GroupLag judged completely. Non-trivial: at least one partition assigned or committed and at least one missing/error/duplicate/above-end feature present; distinct by the set of features present (hash)",
		"DescribedGroupMember.Join/Assigned have no exported constructor: the harness stores the value through the single `any` field (layout verified by reflection and by reading it back through AsConsumer)",
		"'nothing is committed' = partition absent from the commits or present with At == -1 and no error; commit offsets below -1 and negative non-error end offsets are not generated",
		"the exact error value is not judged, only nil-ness",
		"partitions kadm reports that are neither assigned nor committed (remaining listed partitions of a topic of interest) are not required or forbidden; their Lag/Err are judged by the same rule (nothing committed) under signatures prefixed 'unassigned+uncommitted listed partition:'",
		"totals are compared with the sum over the lags actually returned",
	)
}
