// C36 — schema registry serde header round-trips and rejects bad input.
//
// Monitor: a reference encoder/decoder for the Confluent wire header (magic 0,
// 4-byte big-endian id, zig-zag varint message-index list with the single-zero
// shortcut) and a reference model of the Serde registry (id -> index path ->
// registration) observe pkg/sr's Serde and ConfluentHeader over generated
// registrations, payloads, arbitrary byte strings and mutations of valid
// encodings. Inputs whose index count would make an unguarded decoder allocate
// a huge slice are executed in a child process (input on disk first) so that
// an unrecoverable runtime crash is attributed to the input that caused it.
package c36

import (
	"bufio"
	"bytes"
	"context"
	"encoding/binary"
	"encoding/hex"
	"encoding/json"
	"errors"
	"fmt"
	"math"
	"math/rand/v2"
	"os"
	"os/exec"
	"path/filepath"
	"reflect"
	"runtime"
	"strings"
	"sync"
	"testing"
	"time"

	"github.com/twmb/franz-go/pkg/sr"

	"verifharness/internal/vh"
)

// ---------------------------------------------------------------- reference

func refVarintAppend(b []byte, v int64) []byte {
	u := uint64(v<<1) ^ uint64(v>>63)
	for u >= 0x80 {
		b = append(b, byte(u)|0x80)
		u >>= 7
	}
	return append(b, byte(u))
}

// refVarint reads one zig-zag LEB128 of at most 64 bits. n==0: input ended
// inside the number; n<0: more than 64 bits. nonMin: padded with zero groups.
func refVarint(in []byte) (v int64, n int, nonMin bool) {
	var u uint64
	for i := 0; ; i++ {
		if i >= len(in) {
			return 0, 0, false
		}
		b := in[i]
		if i == 9 && b > 1 {
			return 0, -1, false
		}
		u |= uint64(b&0x7f) << (7 * uint(i))
		if b&0x80 == 0 {
			nonMin = i > 0 && b == 0
			return int64(u>>1) ^ -int64(u&1), i + 1, nonMin
		}
		if i == 9 {
			return 0, -1, false
		}
	}
}

func refHeader(id uint32, index []int) []byte {
	b := []byte{0, byte(id >> 24), byte(id >> 16), byte(id >> 8), byte(id)}
	if len(index) == 0 {
		return b
	}
	if len(index) == 1 && index[0] == 0 {
		return append(b, 0)
	}
	b = refVarintAppend(b, int64(len(index)))
	for _, ix := range index {
		b = refVarintAppend(b, int64(ix))
	}
	return b
}

type idxRef struct {
	ok      bool  // well-formed index list
	count   int64 // decoded count (valid when countOK)
	countOK bool
	index   []int
	rest    []byte
	nonMin  bool // some varint was zero padded: property is silent
	tooLong bool // count > maxLength (maxLength > 0), nothing else judged
	big     bool // count > 2^20: an unguarded decoder would allocate a huge slice
	mid     bool // 2^20 < count < 2^40: whether that allocation succeeds depends on the machine
}

func refDecodeIndex(b []byte, maxLength int) (r idxRef) {
	c, n, nm := refVarint(b)
	r.nonMin = nm
	if n <= 0 {
		return
	}
	r.count, r.countOK = c, true
	r.big = c > 1<<20
	r.mid = r.big && c < 1<<40
	b = b[n:]
	if c == 0 {
		r.ok, r.index, r.rest = true, []int{0}, b
		return
	}
	if c < 0 {
		return
	}
	if maxLength > 0 && c > int64(maxLength) {
		r.tooLong = true
		return
	}
	if c > int64(len(b)) { // every element needs at least one byte
		return
	}
	idx := make([]int, 0, c)
	for i := int64(0); i < c; i++ {
		v, n, nm := refVarint(b)
		r.nonMin = r.nonMin || nm
		if n <= 0 {
			return
		}
		idx = append(idx, int(v))
		b = b[n:]
	}
	r.ok, r.index, r.rest = true, idx, b
	return
}

// ---------------------------------------------------------------- values

type holder interface {
	get() []byte
	set([]byte)
	typ() int
	gen() bool
	mark()
}
type val[M any] struct {
	P []byte
	G bool // made by the registered GenerateFn
}

type (
	m0 struct{}
	m1 struct{}
	m2 struct{}
	m3 struct{}
	m4 struct{}
	m5 struct{}
	m6 struct{}
	m7 struct{}
)

func (v *val[M]) get() []byte  { return v.P }
func (v *val[M]) gen() bool    { return v.G }
func (v *val[M]) mark()        { v.G = true }
func (v *val[M]) set(b []byte) { v.P = append([]byte(nil), b...) }
func (v *val[M]) typ() int {
	switch any(v).(type) {
	case *val[m0]:
		return 0
	case *val[m1]:
		return 1
	case *val[m2]:
		return 2
	case *val[m3]:
		return 3
	case *val[m4]:
		return 4
	case *val[m5]:
		return 5
	case *val[m6]:
		return 6
	case *val[m7]:
		return 7
	}
	return -1
}

const ntypes = 8

// mk returns a VALUE (not pointer) of type index ti carrying p, and a fresh pointer of that type.
func mk(ti int, p []byte) (value any, ptr holder) {
	switch ti {
	case 0:
		return val[m0]{P: p}, &val[m0]{}
	case 1:
		return val[m1]{P: p}, &val[m1]{}
	case 2:
		return val[m2]{P: p}, &val[m2]{}
	case 3:
		return val[m3]{P: p}, &val[m3]{}
	case 4:
		return val[m4]{P: p}, &val[m4]{}
	case 5:
		return val[m5]{P: p}, &val[m5]{}
	case 6:
		return val[m6]{P: p}, &val[m6]{}
	default:
		return val[m7]{P: p}, &val[m7]{}
	}
}

func payloadOf(v any) []byte {
	rv := reflect.ValueOf(v)
	if rv.Kind() == reflect.Pointer {
		rv = rv.Elem()
	}
	return rv.Field(0).Bytes()
}

func encFn(v any) ([]byte, error) { return append([]byte(nil), payloadOf(v)...), nil }
func appFn(b []byte, v any) ([]byte, error) {
	return append(b, payloadOf(v)...), nil
}
func decFn(b []byte, v any) error {
	h, ok := v.(holder)
	if !ok {
		return fmt.Errorf("decode target %T is not a pointer to a harness value", v)
	}
	h.set(b)
	return nil
}

// ---------------------------------------------------------------- cases

// reg is one registration in a case's registry.
type reg struct {
	ID    int   `json:"id"`
	Index []int `json:"index"`
	Type  int   `json:"type"`
	Enc   int   `json:"enc"` // 0 none, 1 EncodeFn, 2 AppendEncodeFn, 3 both
	Dec   bool  `json:"dec"`
	Gen   bool  `json:"gen"`
}

// hostile is one decode of arbitrary bytes.
type hostile struct {
	Op     string `json:"op"` // DecodeID, DecodeIndex, Serde.DecodeIndex, Decode, DecodeNew
	B      string `json:"b"`  // hex
	MaxLen int    `json:"maxlen"`
	Regs   []reg  `json:"regs,omitempty"`
	HdrOpt bool   `json:"hdropt"`
	DefDec bool   `json:"defdec"`
}

// outcome is what the code under test did.
type outcome struct {
	Panic   string `json:"panic,omitempty"`
	Err     string `json:"err,omitempty"`
	NotReg  bool   `json:"notreg,omitempty"`
	BadHdr  bool   `json:"badhdr,omitempty"`
	ID      int    `json:"id,omitempty"`
	Index   []int  `json:"index,omitempty"`
	Rest    string `json:"rest"`
	Payload string `json:"payload"`
	Type    int    `json:"type"`
}

func buildSerde(regs []reg, hdrOpt, defDec bool) *sr.Serde {
	var opts []sr.SerdeOrEncodingOpt
	if hdrOpt {
		opts = append(opts, sr.Header(new(sr.ConfluentHeader)))
	}
	if defDec {
		opts = append(opts, sr.DecodeFn(decFn))
	}
	s := sr.NewSerde(opts...)
	for _, g := range regs {
		var o []sr.EncodingOpt
		if g.Enc&1 != 0 {
			o = append(o, sr.EncodeFn(encFn))
		}
		if g.Enc&2 != 0 {
			o = append(o, sr.AppendEncodeFn(appFn))
		}
		if g.Dec && !defDec {
			o = append(o, sr.DecodeFn(decFn))
		}
		if g.Gen {
			ti := g.Type
			o = append(o, sr.GenerateFn(func() any {
				_, p := mk(ti, nil)
				p.mark()
				return p
			}))
		}
		if len(g.Index) > 0 {
			o = append(o, sr.Index(g.Index...))
		}
		v, _ := mk(g.Type, nil)
		s.Register(g.ID, v, o...)
	}
	return s
}

func errOutcome(o *outcome, err error) {
	o.Err = err.Error()
	o.NotReg = errors.Is(err, sr.ErrNotRegistered)
	o.BadHdr = errors.Is(err, sr.ErrBadHeader)
}

// runHostile executes one hostile decode against the code under test.
func runHostile(h hostile) (o outcome) {
	b, _ := hex.DecodeString(h.B)
	o.Type = -1
	defer func() {
		if p := recover(); p != nil {
			o = outcome{Panic: fmt.Sprint(p), Type: -1}
		}
	}()
	var hdr sr.ConfluentHeader
	switch h.Op {
	case "DecodeID":
		id, rest, err := hdr.DecodeID(b)
		if err != nil {
			errOutcome(&o, err)
			return
		}
		o.ID, o.Rest = id, hex.EncodeToString(rest)
	case "DecodeIndex", "Serde.DecodeIndex":
		var idx []int
		var rest []byte
		var err error
		if h.Op == "DecodeIndex" {
			idx, rest, err = hdr.DecodeIndex(b, h.MaxLen)
		} else {
			idx, rest, err = buildSerde(nil, h.HdrOpt, false).DecodeIndex(b, h.MaxLen)
		}
		if err != nil {
			errOutcome(&o, err)
			return
		}
		o.Index, o.Rest = idx, hex.EncodeToString(rest)
	case "Decode":
		s := buildSerde(h.Regs, h.HdrOpt, h.DefDec)
		// the harness DecodeFn accepts a pointer to any harness value type
		_, p := mk(0, nil)
		err := s.Decode(b, p)
		if err != nil {
			errOutcome(&o, err)
			return
		}
		o.Payload, o.Type = hex.EncodeToString(p.get()), -2 // -2: target supplied by caller
	case "DecodeNew":
		s := buildSerde(h.Regs, h.HdrOpt, h.DefDec)
		v, err := s.DecodeNew(b)
		if err != nil {
			errOutcome(&o, err)
			return
		}
		hv, ok := v.(holder)
		if !ok {
			o.Err = fmt.Sprintf("DecodeNew returned %T", v)
			return
		}
		o.Payload, o.Type = hex.EncodeToString(hv.get()), hv.typ()
	}
	return
}

// expectation of the reference model for a hostile case.
type expect struct {
	class   string // "ok", "error", "notreg", "dontcare"
	id      int
	index   []int
	rest    []byte
	payload []byte
	typ     int
	risky   bool
	mid     bool
	why     string
	// unguarded: DecodeIndex was asked to decode a huge count with no effective maxLength
	unguarded bool
}

func refHostile(h hostile) (e expect) {
	b, _ := hex.DecodeString(h.B)
	e.typ = -1
	switch h.Op {
	case "DecodeID":
		if len(b) < 5 || b[0] != 0 {
			return expect{class: "error", why: "short or bad magic"}
		}
		return expect{class: "ok", id: int(binary.BigEndian.Uint32(b[1:5])), rest: b[5:]}
	case "DecodeIndex", "Serde.DecodeIndex":
		r := refDecodeIndex(b, h.MaxLen)
		e.risky, e.mid = r.big, r.mid
		e.unguarded = r.big && !r.tooLong
		switch {
		case r.nonMin:
			e.class, e.why = "dontcare", "zero-padded varint"
		case r.tooLong:
			e.class, e.why = "dontcare", "count above maxLength: only freedom from panics is judged"
		case r.ok:
			e.class, e.index, e.rest = "ok", r.index, r.rest
		default:
			e.class, e.why = "error", "malformed index"
		}
		return
	}
	// Decode / DecodeNew through the registry model
	if len(b) < 5 || b[0] != 0 {
		return expect{class: "error", why: "short or bad magic", typ: -1}
	}
	id := int(binary.BigEndian.Uint32(b[1:5]))
	rest := b[5:]
	var plain *reg
	var indexed []reg
	depth := 0
	for i := range h.Regs {
		g := h.Regs[i]
		if g.ID != id {
			continue
		}
		if len(g.Index) == 0 {
			plain = &h.Regs[i]
		} else {
			indexed = append(indexed, g)
			if len(g.Index) > depth {
				depth = len(g.Index)
			}
		}
	}
	if plain == nil && len(indexed) == 0 {
		return expect{class: "notreg", why: "id not registered", typ: -1}
	}
	fin := func(g reg, payload []byte) expect {
		if !(g.Dec || h.DefDec) {
			return expect{class: "notreg", why: "registered without DecodeFn", typ: -1}
		}
		return expect{class: "ok", payload: payload, typ: g.Type}
	}
	if len(indexed) == 0 {
		return fin(*plain, rest)
	}
	r := refDecodeIndex(rest, depth)
	e.risky, e.mid = r.big, r.mid // an implementation without the depth guard would allocate
	switch {
	case r.nonMin:
		e.class, e.why = "dontcare", "zero-padded varint"
	case r.tooLong:
		e.class, e.why = "notreg", "index longer than any registered path"
	case !r.ok:
		e.class, e.why = "error", "malformed index"
	default:
		e.class, e.why = "notreg", "index path not registered"
		for _, g := range indexed {
			if reflect.DeepEqual(g.Index, r.index) {
				risky, mid := e.risky, e.mid
				e = fin(g, r.rest)
				e.risky, e.mid = risky, mid
				break
			}
		}
	}
	return
}

type failer struct{ r *vh.Run }

func (f *failer) failf(sig, format string, a ...any) {
	f.r.Violation(sig, fmt.Sprintf(format, a...))
}

func eqBytes(a, b []byte) bool { return bytes.Equal(a, b) } // nil == empty

func eqIndex(a, b []int) bool {
	if len(a) != len(b) {
		return false
	}
	for i := range a {
		if a[i] != b[i] {
			return false
		}
	}
	return true
}

// judge compares what the code did with the reference expectation.
func judge(f *failer, h hostile, e expect, o outcome) {
	desc := func() string {
		j, _ := json.Marshal(h)
		oj, _ := json.Marshal(o)
		return fmt.Sprintf("case %s -> %s; reference: %s %s", j, oj, e.class, e.why)
	}
	if o.Panic != "" {
		if e.unguarded {
			// one root cause, one signature: the count read from the input sizes a slice
			f.failf("DecodeIndex-huge-count-allocates", "%s with a huge index count and no effective maxLength: %q: %s", h.Op, o.Panic, desc())
			return
		}
		f.failf(h.Op+"-panic", "panic %q: %s", o.Panic, desc())
		return
	}
	failed := o.Err != ""
	switch e.class {
	case "dontcare":
		f.r.Count("dontcare", 1)
	case "error":
		if !failed {
			f.failf(h.Op+"-malformed-accepted", "%s", desc())
		}
	case "notreg":
		if !failed {
			f.failf(h.Op+"-unregistered-accepted", "%s", desc())
		} else if !o.NotReg {
			f.failf(h.Op+"-unregistered-wrong-error", "want ErrNotRegistered: %s", desc())
		}
	case "ok":
		if failed {
			f.failf(h.Op+"-valid-rejected", "%s", desc())
			return
		}
		rest, _ := hex.DecodeString(o.Rest)
		pay, _ := hex.DecodeString(o.Payload)
		switch h.Op {
		case "DecodeID":
			if o.ID != e.id || !eqBytes(rest, e.rest) {
				f.failf("DecodeID-wrong", "want id %d rest %x: %s", e.id, e.rest, desc())
			}
		case "DecodeIndex", "Serde.DecodeIndex":
			if !eqIndex(o.Index, e.index) || !eqBytes(rest, e.rest) {
				f.failf(h.Op+"-wrong", "want index %v rest %x: %s", e.index, e.rest, desc())
			}
		case "Decode":
			if !eqBytes(pay, e.payload) {
				f.failf("Decode-wrong-payload", "want payload %x: %s", e.payload, desc())
			}
		case "DecodeNew":
			if !eqBytes(pay, e.payload) || o.Type != e.typ {
				f.failf("DecodeNew-wrong", "want payload %x of type %d: %s", e.payload, e.typ, desc())
			}
		}
	}
}

// ---------------------------------------------------------------- generators

var idPool = []int{0, 1, 2, 3, 100, 127, 128, 255, 256, 65535, 65536, 1 << 24, math.MaxInt32 - 1, math.MaxInt32}
var idOdd = []int{-1, -2, math.MinInt32, math.MaxInt32 + 1, math.MaxUint32, math.MaxUint32 + 1, math.MinInt64, math.MaxInt64}

func genID(rng *rand.Rand) int {
	switch rng.IntN(10) {
	case 0, 1, 2, 3:
		return idPool[rng.IntN(len(idPool))]
	case 4:
		if rng.IntN(2) == 0 {
			return idOdd[rng.IntN(len(idOdd))]
		}
		return 1 + rng.IntN(1000)
	default:
		return int(rng.Uint32() >> (1 + rng.IntN(31)))
	}
}

func genIndexVal(rng *rand.Rand) int {
	switch rng.IntN(12) {
	case 0, 1, 2:
		return 0
	case 3, 4, 5:
		return 1 + rng.IntN(5)
	case 6:
		return []int{63, 64, 127, 128, 8191, 8192, math.MaxInt32, math.MaxInt32 + 1, math.MaxInt64}[rng.IntN(9)]
	case 7:
		if rng.IntN(4) == 0 {
			return -1 - rng.IntN(3) // not a legal protobuf message index: never judged
		}
		return rng.IntN(300)
	default:
		return rng.IntN(300)
	}
}

func genIndex(rng *rand.Rand) []int {
	d := rng.IntN(7) // 0..6
	if rng.IntN(6) == 0 {
		return []int{0} // the shortcut
	}
	ix := make([]int, d)
	for i := range ix {
		ix[i] = genIndexVal(rng)
	}
	return ix
}

func genPayload(rng *rand.Rand) []byte {
	var n int
	switch rng.IntN(8) {
	case 0:
		n = 0
	case 1:
		n = 1
	case 2:
		n = 200 + rng.IntN(4000)
	default:
		n = rng.IntN(40)
	}
	p := make([]byte, n)
	for i := range p {
		switch rng.IntN(4) {
		case 0:
			p[i] = 0
		case 1:
			p[i] = 0x80 | byte(rng.IntN(128))
		default:
			p[i] = byte(rng.Uint32())
		}
	}
	return p
}

func judgedID(id int) bool { return id >= 0 && id <= math.MaxInt32 }
func judgedIndex(ix []int) bool {
	for _, v := range ix {
		if v < 0 {
			return false
		}
	}
	return true
}

func idxKey(id int, ix []int) string { return fmt.Sprint(id, ix) }

// genRegs builds a registry: per id either one plain registration or only indexed ones
// (the wire format cannot tell the two apart), distinct (id, index) pairs, distinct types.
func genRegs(rng *rand.Rand) []reg {
	n := 1 + rng.IntN(6)
	var regs []reg
	mode := map[int]int{} // id -> 1 plain, 2 indexed
	seen := map[string]bool{}
	ids := []int{genID(rng), genID(rng), genID(rng)}
	types := rng.Perm(ntypes)
	for len(regs) < n {
		g := reg{ID: ids[rng.IntN(len(ids))], Type: types[len(regs)], Enc: 1 + rng.IntN(3), Dec: true, Gen: rng.IntN(3) == 0}
		if len(regs) > 0 && rng.IntN(3) == 0 { // relatives of an earlier path: sibling / child / parent
			p := regs[rng.IntN(len(regs))]
			g.ID = p.ID
			ix := append([]int(nil), p.Index...)
			switch rng.IntN(3) {
			case 0:
				if len(ix) > 0 {
					ix[len(ix)-1] = genIndexVal(rng)
				}
			case 1:
				if len(ix) > 0 && len(ix) < 6 {
					ix = append(ix, genIndexVal(rng))
				}
			default:
				if len(ix) > 1 {
					ix = ix[:len(ix)-1]
				}
			}
			g.Index = ix
		} else {
			g.Index = genIndex(rng)
		}
		want := 2
		if len(g.Index) == 0 {
			want = 1
		}
		if m := mode[g.ID]; (m != 0 && m != want) || (m == 1 && want == 1) || seen[idxKey(g.ID, g.Index)] {
			if rng.IntN(8) == 0 {
				break
			}
			continue
		}
		// two ids that share their low 32 bits are the same id on the wire
		clash := false
		for _, o := range regs {
			if o.ID != g.ID && uint32(o.ID) == uint32(g.ID) {
				clash = true
			}
		}
		if clash {
			continue
		}
		mode[g.ID] = want
		seen[idxKey(g.ID, g.Index)] = true
		switch rng.IntN(10) {
		case 0:
			g.Enc = 0
		case 1:
			g.Dec = false
		}
		regs = append(regs, g)
	}
	return regs
}

// ---------------------------------------------------------------- round trip

func checkRoundTrip(f *failer, r *vh.Run, rng *rand.Rand, regs []reg, hdrOpt, defDec bool) {
	s := buildSerde(regs, hdrOpt, defDec)
	var hdr sr.SerdeHeader = new(sr.ConfluentHeader)
	for _, g := range regs {
		p := genPayload(rng)
		v, into := mk(g.Type, p)
		judged := judgedID(g.ID) && judgedIndex(g.Index)
		want := append(refHeader(uint32(g.ID), g.Index), p...)
		ctx := func() string {
			j, _ := json.Marshal(map[string]any{"regs": regs, "this": g, "payload": hex.EncodeToString(p), "header_opt": hdrOpt, "default_decode": defDec})
			return string(j)
		}
		if !judged {
			r.Count("dontcare", 1)
			if pn := vh.Catch(func() { b, _ := s.Encode(v); s.Decode(b, into); s.DecodeNew(b) }); pn != nil {
				f.failf("roundtrip-panic-oddid", "panic %v: %s", pn, ctx())
			}
			continue
		}
		r.Eval(1)
		r.DistinctHash("rt", len(g.Index), len(g.Index) == 1 && g.Index[0] == 0, lenClass(len(p)), idClass(g.ID), g.Enc, g.Dec, g.Gen, hdrOpt, defDec, len(regs))
		if r.WantSample() {
			r.Sample(map[string]any{"kind": "round trip", "id": g.ID, "index": g.Index, "payload_len": len(p), "encoded_head": hex.EncodeToString(want[:min(len(want), 24)])})
		}
		pn := vh.Catch(func() {
			// header alone
			if hb, err := hdr.AppendEncode([]byte{0xAB}, g.ID, g.Index); err != nil || !bytes.Equal(hb, append([]byte{0xAB}, refHeader(uint32(g.ID), g.Index)...)) {
				f.failf("ConfluentHeader.AppendEncode", "got %x err %v want ab%x: %s", hb, err, refHeader(uint32(g.ID), g.Index), ctx())
			}
			// package level helpers
			if b, err := sr.Encode(v, hdr, g.ID, g.Index, encFn); err != nil || !bytes.Equal(b, want) {
				f.failf("sr.Encode", "got %x err %v want %x: %s", b, err, want, ctx())
			}
			if b, err := sr.AppendEncode([]byte("pre"), v, hdr, g.ID, g.Index, appFn); err != nil || !bytes.Equal(b, append([]byte("pre"), want...)) {
				f.failf("sr.AppendEncode", "got %x err %v want 707265%x: %s", b, err, want, ctx())
			}
			// Serde encode
			b, err := s.Encode(v)
			if g.Enc == 0 {
				if !errors.Is(err, sr.ErrNotRegistered) {
					f.failf("Encode-without-EncodeFn", "err %v want ErrNotRegistered: %s", err, ctx())
				}
				b = want
			} else {
				if err != nil || !bytes.Equal(b, want) {
					f.failf("Serde.Encode", "got %x err %v want %x: %s", b, err, want, ctx())
				}
				pre := genPayload(rng)
				preCopy := append(make([]byte, 0, len(pre)+rng.IntN(64)), pre...)
				if ab, err := s.AppendEncode(preCopy, v); err != nil || !bytes.Equal(ab, append(append([]byte(nil), pre...), want...)) {
					f.failf("Serde.AppendEncode", "prefix %x got %x err %v want prefix+%x: %s", pre, ab, err, want, ctx())
				}
				if mb := s.MustEncode(v); !bytes.Equal(mb, want) {
					f.failf("Serde.MustEncode", "got %x want %x: %s", mb, want, ctx())
				}
				if mb := s.MustAppendEncode([]byte{1, 2}, v); !bytes.Equal(mb, append([]byte{1, 2}, want...)) {
					f.failf("Serde.MustAppendEncode", "got %x want 0102%x: %s", mb, want, ctx())
				}
				b = want
			}
			// header decode of the reference bytes
			id, rest, err := s.DecodeID(b)
			if err != nil || id != g.ID || !bytes.Equal(rest, b[5:]) {
				f.failf("Serde.DecodeID", "got id %d rest %x err %v: %s", id, rest, err, ctx())
			}
			if len(g.Index) > 0 {
				for _, ml := range []int{0, -1, len(g.Index), len(g.Index) + 1 + rng.IntN(3), math.MaxInt} {
					ix, rest2, err := s.DecodeIndex(b[5:], ml)
					if err != nil || !eqIndex(ix, g.Index) || !eqBytes(rest2, p) {
						f.failf("Serde.DecodeIndex-roundtrip", "maxLength %d got %v rest %x err %v: %s", ml, ix, rest2, err, ctx())
					}
				}
			}
			// Serde decode
			err = s.Decode(b, into)
			if !(g.Dec || defDec) {
				if !errors.Is(err, sr.ErrNotRegistered) {
					f.failf("Decode-without-DecodeFn", "err %v want ErrNotRegistered: %s", err, ctx())
				}
				if _, err := s.DecodeNew(b); !errors.Is(err, sr.ErrNotRegistered) {
					f.failf("DecodeNew-without-DecodeFn", "err %v want ErrNotRegistered: %s", err, ctx())
				}
				return
			}
			if err != nil || !eqBytes(into.get(), p) {
				f.failf("Serde.Decode-roundtrip", "got %x err %v want %x: %s", into.get(), err, p, ctx())
			}
			nv, err := s.DecodeNew(b)
			hv, ok := nv.(holder)
			if err != nil || !ok || hv.typ() != g.Type || !eqBytes(hv.get(), p) {
				f.failf("Serde.DecodeNew-roundtrip", "got %T %+v err %v want type %d payload %x: %s", nv, nv, err, g.Type, p, ctx())
			} else if g.Gen {
				if !hv.gen() {
					f.failf("DecodeNew-ignores-GenerateFn", "value was not made by the registered GenerateFn: %s", ctx())
				}
			}
		})
		if pn != nil {
			f.failf("roundtrip-panic", "panic %v: %s", pn, ctx())
		}
	}
	// a type that was never registered
	used := map[int]bool{}
	for _, g := range regs {
		used[g.Type] = true
	}
	for ti := 0; ti < ntypes; ti++ {
		if used[ti] {
			continue
		}
		v, _ := mk(ti, []byte{1})
		r.Eval(1)
		var err error
		if pn := vh.Catch(func() { _, err = s.Encode(v) }); pn != nil || !errors.Is(err, sr.ErrNotRegistered) {
			f.failf("Encode-unregistered-type", "panic %v err %v want ErrNotRegistered", pn, err)
		}
		break
	}
}

func lenClass(n int) string {
	switch {
	case n == 0:
		return "0"
	case n == 1:
		return "1"
	case n < 64:
		return "<64"
	default:
		return ">=64"
	}
}

func idClass(id int) string {
	switch {
	case id == 0:
		return "0"
	case id < 256:
		return "<2^8"
	case id < 1<<16:
		return "<2^16"
	case id < 1<<24:
		return "<2^24"
	case id == math.MaxInt32:
		return "max"
	default:
		return "<2^31"
	}
}

// ---------------------------------------------------------------- hostile inputs

var maxLens = []int{0, 0, -1, 1, 2, 3, 6, 7, 64, math.MaxInt32, math.MaxInt, math.MinInt}

// counts between 2^20 and 2^40 are left out: whether an 8 MiB .. 8 TiB allocation succeeds
// (and how long zeroing it takes) depends on the machine, so such cases are never run.
var hugeCounts = []int64{1 << 62, 1 << 17, 1 << 20, 1 << 40, 1 << 44, 1 << 45, 1<<45 + 1, 1 << 47, 1 << 56, math.MaxInt64, math.MinInt64, -1, -2, -1 << 40}

// mutate returns a hostile variant of a valid encoding (or pure noise).
func mutate(rng *rand.Rand, valid []byte) []byte {
	b := append([]byte(nil), valid...)
	switch rng.IntN(12) {
	case 0: // noise
		n := rng.IntN(24)
		b = make([]byte, n)
		for i := range b {
			b[i] = byte(rng.Uint32())
		}
		if n > 0 && rng.IntN(2) == 0 {
			b[0] = 0
		}
	case 1: // strict prefix
		if len(b) > 0 {
			b = b[:rng.IntN(len(b))]
		}
	case 2: // flip a byte
		if len(b) > 0 {
			b[rng.IntN(len(b))] ^= byte(1 + rng.IntN(255))
		}
	case 3: // bad magic
		if len(b) > 0 {
			b[0] = byte(1 + rng.IntN(255))
		}
	case 4, 5: // replace the count with a huge or negative one
		if len(b) >= 5 {
			tail := b[5:]
			if _, n, _ := refVarint(tail); n > 0 {
				tail = tail[n:]
			}
			nb := append([]byte(nil), b[:5]...)
			nb = refVarintAppend(nb, hugeCounts[rng.IntN(len(hugeCounts))])
			if rng.IntN(2) == 0 {
				nb = append(nb, tail...)
			}
			b = nb
		}
	case 6: // endless continuation bits
		if len(b) >= 5 {
			b = append(b[:5:5], bytes.Repeat([]byte{0xff}, 1+rng.IntN(12))...)
			if rng.IntN(2) == 0 {
				b = append(b, byte(rng.IntN(4)))
			}
		}
	case 7: // set a continuation bit somewhere in the index
		if len(b) > 5 {
			b[5+rng.IntN(len(b)-5)] |= 0x80
		}
	case 8: // another id
		if len(b) >= 5 {
			binary.BigEndian.PutUint32(b[1:5], uint32(genID(rng)))
		}
	case 9: // count off by one
		if len(b) > 5 {
			b[5] += 2 // zig-zag: +1
		}
	case 10: // truncated inside the index
		if len(b) > 6 {
			b = b[:5+1+rng.IntN(len(b)-6)]
		}
	default: // unchanged: valid input through the hostile path
	}
	return b
}

func genHostile(rng *rand.Rand) hostile {
	regs := genRegs(rng)
	g := regs[rng.IntN(len(regs))]
	tail := genPayload(rng)
	tail = tail[:min(len(tail), rng.IntN(9))]
	valid := append(refHeader(uint32(g.ID), g.Index), tail...)
	if rng.IntN(5) == 0 && len(g.Index) > 0 { // a neighbouring, unregistered path
		ix := append([]int(nil), g.Index...)
		switch rng.IntN(3) {
		case 0:
			ix[len(ix)-1]++
		case 1:
			ix = append(ix, rng.IntN(3))
		default:
			ix = ix[:len(ix)-1]
			if len(ix) == 0 {
				ix = []int{g.Index[0] + 1}
			}
		}
		valid = append(refHeader(uint32(g.ID), ix), 0x55)
	}
	b := mutate(rng, valid)
	h := hostile{HdrOpt: rng.IntN(4) == 0, DefDec: rng.IntN(5) == 0}
	switch rng.IntN(10) {
	case 0:
		h.Op = "DecodeID"
	case 1, 2, 3:
		h.Op = "DecodeIndex"
		if len(b) >= 5 && rng.IntN(4) != 0 {
			b = b[5:]
		}
		h.MaxLen = maxLens[rng.IntN(len(maxLens))]
	case 4:
		h.Op = "Serde.DecodeIndex"
		if len(b) >= 5 {
			b = b[5:]
		}
		h.MaxLen = maxLens[rng.IntN(len(maxLens))]
	case 5, 6, 7:
		h.Op, h.Regs = "Decode", regs
	default:
		h.Op, h.Regs = "DecodeNew", regs
	}
	h.B = hex.EncodeToString(b)
	return h
}

// oddRegs reports whether the registry has ids/indices outside the judged domain.
func oddRegs(regs []reg) bool {
	for _, g := range regs {
		if !judgedID(g.ID) || !judgedIndex(g.Index) {
			return true
		}
	}
	return false
}

// ---------------------------------------------------------------- child process

const childEnv = "VERIF_C36_CHILD"

// TestChild executes the cases of a file one by one, announcing each before it runs.
func TestChild(t *testing.T) {
	path := os.Getenv(childEnv)
	if path == "" {
		t.Skip("helper process of TestCheck")
	}
	raw, err := os.ReadFile(path)
	if err != nil {
		t.Fatal(err)
	}
	var cases []hostile
	if err := json.Unmarshal(raw, &cases); err != nil {
		t.Fatal(err)
	}
	start := 0
	fmt.Sscan(os.Getenv(childEnv+"_START"), &start)
	w := bufio.NewWriter(os.Stdout)
	for i := start; i < len(cases); i++ {
		fmt.Fprintf(w, "C36S %d\n", i)
		w.Flush()
		o := runHostile(cases[i])
		j, _ := json.Marshal(o)
		fmt.Fprintf(w, "C36R %d %s\n", i, j)
		w.Flush()
	}
}

// runInChild returns the outcome of every case; a case that killed the process gets
// outcome.Panic = "process crashed: ...".
func runInChild(r *vh.Run, cases []hostile) []outcome {
	out := make([]outcome, len(cases))
	dir, err := os.MkdirTemp("", "c36")
	if err != nil {
		r.Inconclusive("cannot create temp dir: " + err.Error())
		return nil
	}
	defer os.RemoveAll(dir)
	path := filepath.Join(dir, "cases.json")
	raw, _ := json.Marshal(cases)
	if err := os.WriteFile(path, raw, 0o644); err != nil {
		r.Inconclusive("cannot write child input: " + err.Error())
		return nil
	}
	start, crashes := 0, 0
	for start < len(cases) {
		cctx, cancel := context.WithTimeout(context.Background(), 5*time.Minute) // watchdog only
		cmd := exec.CommandContext(cctx, os.Args[0], "-test.run", "^TestChild$", "-test.v", "-test.timeout", "0")
		cmd.Env = append(os.Environ(), childEnv+"="+path, fmt.Sprintf("%s_START=%d", childEnv, start), "GOTRACEBACK=single", "GORACE=")
		var stdout, stderr bytes.Buffer
		cmd.Stdout, cmd.Stderr = &stdout, &stderr
		runErr := cmd.Run()
		timedOut := cctx.Err() != nil
		cancel()
		if timedOut {
			r.Inconclusive("child process watchdog fired; risky cases not judged")
			return nil
		}
		begun, done := -1, -1
		for _, line := range strings.Split(stdout.String(), "\n") {
			var i int
			if n, _ := fmt.Sscanf(line, "C36S %d", &i); n == 1 {
				begun = i
			} else if strings.HasPrefix(line, "C36R ") {
				parts := strings.SplitN(line, " ", 3)
				if len(parts) == 3 {
					fmt.Sscan(parts[1], &i)
					var o outcome
					if json.Unmarshal([]byte(parts[2]), &o) == nil && i >= 0 && i < len(out) {
						out[i] = o
						done = i
					}
				}
			}
		}
		if begun > done { // died inside case `begun`
			crashes++
			msg := stderr.String() + stdout.String()
			first := "unknown"
			for _, line := range strings.Split(msg, "\n") {
				if strings.HasPrefix(line, "fatal error:") || strings.HasPrefix(line, "panic:") || strings.HasPrefix(line, "runtime:") {
					first = line
					break
				}
			}
			frame := ""
			for _, line := range strings.Split(msg, "\n") {
				if strings.HasPrefix(line, "github.com/twmb/franz-go") {
					frame = strings.TrimSpace(line)
					break
				}
			}
			out[begun] = outcome{Panic: fmt.Sprintf("process crashed: %s at %s", first, frame), Type: -1}
			start = begun + 1
			if crashes > 400 {
				r.Inconclusive("more than 400 child crashes; remaining risky cases not run")
				return out[:start]
			}
			continue
		}
		if done != len(cases)-1 {
			r.Inconclusive(fmt.Sprintf("child stopped after case %d of %d without crashing inside a case: %v %s", done, len(cases), runErr, head(stderr.String())))
			return out[:done+1]
		}
		break
	}
	r.Count("child_process_crashes", crashes)
	return out
}

func head(s string) string {
	if len(s) > 300 {
		return s[:300]
	}
	return s
}

// ---------------------------------------------------------------- entry point

func TestCheck(t *testing.T) {
	r := vh.Start(t, "C36")
	f := &failer{r: r}
	workers := runtime.NumCPU()

	// fixed cases the generator might miss
	fixed := [][]reg{
		{{ID: 0, Type: 0, Enc: 1, Dec: true}},
		{{ID: 1, Index: []int{0}, Type: 1, Enc: 2, Dec: true}},
		{{ID: math.MaxInt32, Index: []int{0, 0}, Type: 2, Enc: 3, Dec: true, Gen: true}},
		{{ID: 7, Index: []int{1}, Type: 0, Enc: 1, Dec: true}, {ID: 7, Index: []int{1, 2}, Type: 1, Enc: 1, Dec: true}, {ID: 7, Index: []int{0}, Type: 2, Enc: 1, Dec: true}},
		{{ID: 256, Index: []int{1, 2, 3, 4, 5, 6}, Type: 3, Enc: 1, Dec: true}, {ID: 257, Type: 4, Enc: 1, Dec: true}},
		{{ID: 5, Index: []int{math.MaxInt32, 0, 127, 128, 64, 63}, Type: 5, Enc: 2, Dec: true}},
	}
	for i, regs := range fixed {
		checkRoundTrip(f, r, r.Rand("fixed", i), regs, i%2 == 0, false)
	}

	// generated registries: round trip
	nrt := r.Pick(40_000, 2_000_000)
	vh.Parallel(workers, workers, func(w int) {
		rng := r.Rand("roundtrip", w)
		for k := 0; k < nrt/workers; k++ {
			checkRoundTrip(f, r, rng, genRegs(rng), rng.IntN(4) == 0, rng.IntN(5) == 0)
			if r.Violations() >= 20 {
				return
			}
		}
	})

	// hostile decoding: in process when the reference says nothing big can be allocated,
	// otherwise in a child process
	nh := r.Pick(120_000, 4_000_000)
	var mu sync.Mutex
	var risky []hostile
	riskyCap := r.Pick(400, 3000)
	vh.Parallel(workers, workers, func(w int) {
		rng := r.Rand("hostile", w)
		for k := 0; k < nh/workers; k++ {
			h := genHostile(rng)
			e := refHostile(h)
			if (h.Op == "Decode" || h.Op == "DecodeNew") && oddRegs(h.Regs) && e.class != "error" {
				e.class, e.why = "dontcare", "registry holds ids/indices outside the judged domain"
			}
			if e.mid {
				r.Count("midrange_count_not_run", 1)
				continue
			}
			if e.risky {
				mu.Lock()
				if len(risky) < riskyCap {
					risky = append(risky, h)
				} else {
					r.Count("risky_cases_not_run", 1)
				}
				mu.Unlock()
				continue
			}
			o := runHostile(h)
			judge(f, h, e, o)
			r.Eval(1)
			if len(h.B) > 0 {
				r.DistinctHash("h", h.Op, e.class, e.why, lenClass(len(h.B)/2), h.MaxLen, o.Err != "")
			}
			r.Count("hostile_"+e.class, 1)
			if e.class == "notreg" && r.Counter("sampled_notreg") == 0 {
				r.Count("sampled_notreg", 1)
				r.Sample(map[string]any{"kind": "hostile", "case": h, "reference": e.class + ": " + e.why, "got": o})
			}
		}
	})
	// a few fixed risky cases so the child path is always exercised
	var fixedRisky []hostile
	for _, c := range hugeCounts {
		b := refVarintAppend(nil, c)
		fixedRisky = append(fixedRisky,
			hostile{Op: "DecodeIndex", B: hex.EncodeToString(b), MaxLen: 0},
			hostile{Op: "DecodeIndex", B: hex.EncodeToString(append(b, 2, 4)), MaxLen: -1},
			hostile{Op: "DecodeIndex", B: hex.EncodeToString(b), MaxLen: math.MaxInt},
			hostile{Op: "DecodeIndex", B: hex.EncodeToString(b), MaxLen: 6},
			hostile{Op: "Serde.DecodeIndex", B: hex.EncodeToString(b), MaxLen: 0},
			hostile{Op: "DecodeNew", B: hex.EncodeToString(append([]byte{0, 0, 0, 0, 9}, b...)), Regs: []reg{{ID: 9, Index: []int{1, 2}, Type: 3, Enc: 1, Dec: true}}},
			hostile{Op: "Decode", B: hex.EncodeToString(append([]byte{0, 0, 0, 0, 9}, b...)), Regs: []reg{{ID: 9, Index: []int{0}, Type: 0, Enc: 1, Dec: true}}},
		)
	}
	risky = append(fixedRisky, risky...)
	r.Count("risky_cases_in_child", len(risky))
	nchunks := min(workers, (len(risky)+15)/16)
	outs := make([][]outcome, nchunks)
	chunk := func(c int) []hostile { return risky[c*len(risky)/nchunks : (c+1)*len(risky)/nchunks] }
	vh.Parallel(nchunks, workers, func(c int) { outs[c] = runInChild(r, chunk(c)) })
	sampled := false
	for c := 0; c < nchunks; c++ {
		for i, o := range outs[c] {
			h := chunk(c)[i]
			e := refHostile(h)
			if (h.Op == "Decode" || h.Op == "DecodeNew") && oddRegs(h.Regs) && e.class != "error" {
				e.class = "dontcare"
			}
			judge(f, h, e, o)
			r.Eval(1)
			r.DistinctHash("risky", h.Op, e.class, e.why, h.MaxLen > 0, o.Panic != "", o.Err != "")
			if o.Panic != "" && !sampled {
				sampled = true
				r.Sample(map[string]any{"kind": "risky case that crashed", "case": h, "got": o})
			}
		}
	}

	r.Set("exhaustive", false)
	r.Finish("exploration",
		"round trip: seeded registries of 1-6 registrations (ids from boundary pool and random 0..2^31-1, index paths of depth 0-6 incl. the [0] shortcut, sibling/child/parent paths of one id, payloads of 0-4 KiB incl. varint-looking bytes, EncodeFn/AppendEncodeFn/DecodeFn/GenerateFn/Header/default options); a case = one registration checked through Encode, AppendEncode, Must*, sr.Encode, sr.AppendEncode, DecodeID, DecodeIndex, Decode, DecodeNew; non-trivial when judged (id in 0..MaxInt32, no negative index value); distinct by (depth, shortcut, payload-length class, id class, options, registry size). Hostile: noise and 11 mutation kinds of valid encodings through DecodeID / DecodeIndex (12 maxLength values) / Serde.Decode / DecodeNew, compared with a reference parse + registry model; non-trivial when input non-empty; distinct by (op, reference class, length class, maxLength, accepted)",
		"the reference header codec and registry model in harness/c36_serde are trusted",
		"ids outside 0..MaxInt32 and negative index values are generated but only checked for freedom from panics",
		"inputs with zero-padded (non-minimal) varints and DecodeIndex calls whose count exceeds a positive maxLength are only checked for freedom from panics",
		"one id is never registered both with and without an index (the wire format cannot distinguish them)",
		"an unrecoverable runtime crash (fatal error: out of memory) counts as a panic",
	)
}
