// C37 — trace propagation carrier behaves as a header map.
//
// Monitor 1 (model): a reference header list observes kotel.RecordCarrier under
// seeded Set/Get/Keys sequences over header lists with duplicate keys.
// Monitor 2 (end to end): records carrying generated span contexts travel
// producer client -> kfake broker -> consumer client with the real kotel hooks
// installed (OnProduceRecordBuffered injects, OnFetchRecordBuffered extracts);
// what the consumer-side hook extracted is compared with what the producer-side
// hook injected and with the W3C propagator run over a plain map carrier.
package c37

import (
	"bytes"
	"context"
	"fmt"
	"math/rand/v2"
	"runtime"
	"strconv"
	"strings"
	"sync"
	"sync/atomic"
	"testing"
	"time"

	"github.com/twmb/franz-go/pkg/kfake"
	"github.com/twmb/franz-go/pkg/kgo"
	"github.com/twmb/franz-go/plugin/kotel"
	"go.opentelemetry.io/otel/propagation"
	"go.opentelemetry.io/otel/trace"
	"go.opentelemetry.io/otel/trace/embedded"
	"go.opentelemetry.io/otel/trace/noop"

	"verifharness/internal/vh"
)

// ---------------------------------------------------------------- carrier model

type hdr struct {
	k string
	v []byte
}

var keyPool = []string{"a", "b", "A", "", "traceparent", "tracestate", "baggage", "ключ", "k\x00", "a ", "x-very-long-header-key-name-0123456789"}

func genKey(rng *rand.Rand, pool int) string {
	if rng.IntN(12) == 0 {
		b := make([]byte, rng.IntN(6))
		for i := range b {
			b[i] = byte(rng.Uint32())
		}
		return string(b)
	}
	return keyPool[rng.IntN(pool)]
}

func genVal(rng *rand.Rand) []byte {
	switch rng.IntN(8) {
	case 0:
		return nil
	case 1:
		return []byte{}
	}
	b := make([]byte, rng.IntN(20))
	for i := range b {
		if rng.IntN(3) == 0 {
			b[i] = byte(rng.Uint32())
		} else {
			b[i] = byte('a' + rng.IntN(26))
		}
	}
	return b
}

func snapshot(rec *kgo.Record) []hdr {
	out := make([]hdr, len(rec.Headers))
	for i, h := range rec.Headers {
		out[i] = hdr{h.Key, append([]byte(nil), h.Value...)}
	}
	return out
}

func fmtHdrs(hs []hdr) string {
	var sb strings.Builder
	for _, h := range hs {
		fmt.Fprintf(&sb, "%q=%q ", h.k, h.v)
	}
	return sb.String()
}

func firstOf(hs []hdr, k string) (string, bool) {
	for _, h := range hs {
		if h.k == k {
			return string(h.v), true
		}
	}
	return "", false
}

func without(hs []hdr, k string) []hdr {
	var out []hdr
	for _, h := range hs {
		if h.k != k {
			out = append(out, h)
		}
	}
	return out
}

func sameHdrs(a, b []hdr) bool {
	if len(a) != len(b) {
		return false
	}
	for i := range a {
		if a[i].k != b[i].k || !bytes.Equal(a[i].v, b[i].v) {
			return false
		}
	}
	return true
}

type failer struct{ r *vh.Run }

func (f *failer) failf(sig, format string, a ...any) {
	f.r.Violation(sig, fmt.Sprintf(format, a...))
}

// checkSequence runs one seeded op sequence; returns whether duplicates were involved.
func checkSequence(f *failer, r *vh.Run, rng *rand.Rand) (shape string) {
	pool := 2 + rng.IntN(len(keyPool)-1)
	n := rng.IntN(9)
	rec := &kgo.Record{Key: []byte("key"), Value: []byte("value"), Topic: "t"}
	if n > 0 || rng.IntN(2) == 0 {
		rec.Headers = make([]kgo.RecordHeader, 0, n+rng.IntN(3))
	}
	for i := 0; i < n; i++ {
		rec.Headers = append(rec.Headers, kgo.RecordHeader{Key: genKey(rng, pool), Value: genVal(rng)})
	}
	// Half of the records are laid out the way a fetched record is: key, value
	// and every header value are consecutive sub-slices of ONE buffer (the
	// decoded batch), so each slice's capacity runs on into its neighbours.
	// Writing through an old header value's backing array then shows up as a
	// changed neighbour.
	if arena := rng.IntN(2) == 0; arena {
		var buf []byte
		type span struct{ lo, hi int }
		add := func(b []byte) span {
			lo := len(buf)
			buf = append(buf, b...)
			return span{lo, len(buf)}
		}
		ks := add(rec.Key)
		hs := make([]span, len(rec.Headers))
		nilv := make([]bool, len(rec.Headers))
		for i, h := range rec.Headers {
			nilv[i] = h.Value == nil
			hs[i] = add(h.Value)
		}
		vs := add(rec.Value)
		buf = append(buf, "tail-of-the-batch-buffer"...)
		rec.Key = buf[ks.lo:ks.hi]
		rec.Value = buf[vs.lo:vs.hi]
		for i := range rec.Headers {
			if !nilv[i] {
				rec.Headers[i].Value = buf[hs[i].lo:hs[i].hi]
			}
		}
		r.Count("records_with_shared_backing_buffer", 1)
	}
	c := kotel.NewRecordCarrier(rec)
	var log []string
	dups, sets, newKeys := false, 0, 0
	{
		seen := map[string]bool{}
		for _, h := range rec.Headers {
			if seen[h.Key] {
				dups = true
			}
			seen[h.Key] = true
		}
	}
	nops := 1 + rng.IntN(14)
	for op := 0; op < nops; op++ {
		before := snapshot(rec)
		switch rng.IntN(4) {
		case 0, 1: // Set
			k, v := genKey(rng, pool), string(genVal(rng))
			log = append(log, fmt.Sprintf("Set(%q,%q)", k, v))
			getBefore := map[string]string{}
			for _, h := range before {
				if _, ok := getBefore[h.k]; !ok && h.k != k {
					getBefore[h.k] = c.Get(h.k)
				}
			}
			if p := vh.Catch(func() { c.Set(k, v) }); p != nil {
				r.Inconclusive(fmt.Sprintf("Set panicked: %v after %v", p, log))
				return
			}
			sets++
			after := snapshot(rec)
			_, existed := firstOf(before, k)
			if !existed {
				newKeys++
			}
			if got := c.Get(k); got != v {
				f.failf("Get-after-Set", "headers [%s]; %s; Get(%q) = %q want %q", fmtHdrs(before), strings.Join(log, " "), k, got, v)
			}
			if !sameHdrs(without(before, k), without(after, k)) {
				f.failf("Set-changed-another-header", "headers before [%s] after [%s]; ops %s", fmtHdrs(before), fmtHdrs(after), strings.Join(log, " "))
			}
			// every other key reads as it did before the Set
			for ok, want := range getBefore {
				if got := c.Get(ok); got != want {
					f.failf("Set-changed-Get-of-another-key", "headers before [%s]; ops %s; Get(%q) = %q, before the Set it was %q", fmtHdrs(before), strings.Join(log, " "), ok, got, want)
				}
			}
			// Keys: unchanged if the key existed, else the key is added (once)
			wantKeys := make([]string, 0, len(before)+1)
			for _, h := range before {
				wantKeys = append(wantKeys, h.k)
			}
			if !existed {
				wantKeys = append(wantKeys, k)
			}
			if got := c.Keys(); !dupsOf(before, k) && !sameStrings(got, wantKeys) {
				f.failf("Keys-after-Set", "headers before [%s]; ops %s; Keys() = %q want %q", fmtHdrs(before), strings.Join(log, " "), got, wantKeys)
			}
			if string(rec.Key) != "key" || string(rec.Value) != "value" || rec.Topic != "t" {
				f.failf("Set-changed-record-fields", "record key/value/topic changed: %q %q %q", rec.Key, rec.Value, rec.Topic)
			}
		case 2: // Get
			k := genKey(rng, pool)
			log = append(log, fmt.Sprintf("Get(%q)", k))
			want, _ := firstOf(before, k)
			var got string
			if p := vh.Catch(func() { got = c.Get(k) }); p != nil {
				r.Inconclusive(fmt.Sprintf("Get panicked: %v after %v", p, log))
				return
			}
			if dupsOf(before, k) && !valuesAgree(before, k) {
				// several headers share the key with different values: a map has one value per
				// key; which header wins is only pinned down right after a Set (checked above)
				r.Count("dontcare_get_of_duplicate_key_before_set", 1)
			} else if got != want {
				f.failf("Get-wrong-value", "headers [%s]; Get(%q) = %q want %q", fmtHdrs(before), k, got, want)
			}
			if !sameHdrs(before, snapshot(rec)) {
				f.failf("Get-modified-headers", "headers before [%s] after [%s]", fmtHdrs(before), fmtHdrs(snapshot(rec)))
			}
		default: // Keys
			log = append(log, "Keys()")
			var got []string
			if p := vh.Catch(func() { got = c.Keys() }); p != nil {
				r.Inconclusive(fmt.Sprintf("Keys panicked: %v after %v", p, log))
				return
			}
			want := make([]string, len(before))
			for i, h := range before {
				want[i] = h.k
			}
			if !sameStrings(got, want) {
				f.failf("Keys-differs-from-header-keys", "headers [%s]; Keys() = %q", fmtHdrs(before), got)
			}
			if !sameHdrs(before, snapshot(rec)) {
				f.failf("Keys-modified-headers", "headers before [%s] after [%s]", fmtHdrs(before), fmtHdrs(snapshot(rec)))
			}
		}
	}
	return fmt.Sprintf("n%d dup%v sets%d new%d ops%d", n, dups, min(sets, 3), min(newKeys, 2), min(nops, 4))
}

func dupsOf(hs []hdr, k string) bool {
	n := 0
	for _, h := range hs {
		if h.k == k {
			n++
		}
	}
	return n > 1
}

func valuesAgree(hs []hdr, k string) bool {
	first, _ := firstOf(hs, k)
	for _, h := range hs {
		if h.k == k && string(h.v) != first {
			return false
		}
	}
	return true
}

func sameStrings(a, b []string) bool {
	if len(a) != len(b) {
		return false
	}
	for i := range a {
		if a[i] != b[i] {
			return false
		}
	}
	return true
}

// ---------------------------------------------------------------- a small recording tracer provider

// recProvider creates real child spans (new span id, parent remembered) the way an
// SDK does, without needing the SDK module.
type recProvider struct {
	embedded.TracerProvider
	ctr atomic.Uint64
	tag byte
}

type recTracer struct {
	embedded.Tracer
	p *recProvider
}

type recSpan struct {
	noop.Span
	sc     trace.SpanContext
	parent trace.SpanContext
	links  []trace.Link
	name   string
}

func (s *recSpan) SpanContext() trace.SpanContext { return s.sc }
func (s *recSpan) IsRecording() bool              { return true }

func (p *recProvider) Tracer(string, ...trace.TracerOption) trace.Tracer { return &recTracer{p: p} }

func (t *recTracer) Start(ctx context.Context, name string, opts ...trace.SpanStartOption) (context.Context, trace.Span) {
	cfg := trace.NewSpanStartConfig(opts...)
	parent := trace.SpanContextFromContext(ctx)
	if cfg.NewRoot() {
		parent = trace.SpanContext{}
	}
	n := t.p.ctr.Add(1)
	var sid trace.SpanID
	sid[0] = t.p.tag
	for i := 0; i < 7; i++ {
		sid[7-i] = byte(n >> (8 * i))
	}
	sccfg := trace.SpanContextConfig{SpanID: sid}
	if parent.IsValid() {
		sccfg.TraceID, sccfg.TraceFlags, sccfg.TraceState = parent.TraceID(), parent.TraceFlags(), parent.TraceState()
	} else {
		var tid trace.TraceID
		tid[0] = t.p.tag
		for i := 0; i < 8; i++ {
			tid[15-i] = byte(n >> (8 * i))
		}
		sccfg.TraceID, sccfg.TraceFlags = tid, trace.FlagsSampled
	}
	sp := &recSpan{sc: trace.NewSpanContext(sccfg), parent: parent, links: cfg.Links(), name: name}
	return trace.ContextWithSpan(ctx, sp), sp
}

// ---------------------------------------------------------------- end to end

func genSpanContext(rng *rand.Rand) trace.SpanContext {
	var cfg trace.SpanContextConfig
	for i := range cfg.TraceID {
		cfg.TraceID[i] = byte(rng.Uint32())
	}
	for i := range cfg.SpanID {
		cfg.SpanID[i] = byte(rng.Uint32())
	}
	switch rng.IntN(6) {
	case 0: // boundary ids
		cfg.TraceID = trace.TraceID{15: 1}
		cfg.SpanID = trace.SpanID{7: 1}
	case 1:
		for i := range cfg.TraceID {
			cfg.TraceID[i] = 0xff
		}
		for i := range cfg.SpanID {
			cfg.SpanID[i] = 0xff
		}
	}
	cfg.TraceFlags = trace.TraceFlags(rng.IntN(4))
	if rng.IntN(8) == 0 {
		cfg.TraceFlags = trace.TraceFlags(rng.IntN(256))
	}
	if rng.IntN(2) == 0 {
		var members []string
		for i, n := 0, 1+rng.IntN(4); i < n; i++ {
			k := string(rune('a'+rng.IntN(26))) + strconv.Itoa(i)
			if rng.IntN(3) == 0 {
				k += "_-*/x"
			}
			if rng.IntN(5) == 0 {
				k = "tenant" + strconv.Itoa(i) + "@sys"
			}
			const valChars = "abcXYZ019 !#$%&'()*+-./:;<>?@[]^_`{|}~"
			v := make([]byte, 1+rng.IntN(12))
			for j := range v {
				v[j] = valChars[rng.IntN(len(valChars))]
			}
			if v[len(v)-1] == ' ' {
				v[len(v)-1] = 'z'
			}
			members = append(members, k+"="+string(v))
		}
		if ts, err := trace.ParseTraceState(strings.Join(members, ",")); err == nil {
			cfg.TraceState = ts
		}
	}
	return trace.NewSpanContext(cfg)
}

func scString(sc trace.SpanContext) string {
	return fmt.Sprintf("trace=%s span=%s flags=%s state=%q valid=%v", sc.TraceID(), sc.SpanID(), sc.TraceFlags(), sc.TraceState().String(), sc.IsValid())
}

func scEqual(a, b trace.SpanContext) bool {
	return a.TraceID() == b.TraceID() && a.SpanID() == b.SpanID() && a.TraceFlags() == b.TraceFlags() && a.TraceState().String() == b.TraceState().String()
}

type e2eCase struct {
	idx       int
	parent    trace.SpanContext // what the application had in r.Context (may be invalid)
	initial   []hdr             // headers the application had put on the record
	injected  trace.SpanContext // the context the producer-side hook put on the wire (learned from the promise)
	headers   []hdr             // the record's headers after the producer-side hook ran
	delivered bool
}

type e2eConfig struct {
	name     string
	provider func(tag byte) trace.TracerProvider // nil: no hooks, the propagator is driven directly
	link     bool
	comp     bool // composite propagator TraceContext+Baggage instead of TraceContext alone
}

func runE2E(f *failer, r *vh.Run, cl *kfake.Cluster, cfgIdx int, cfg e2eConfig, n int) {
	topic := "t" + strconv.Itoa(cfgIdx)
	var prop propagation.TextMapPropagator = propagation.TraceContext{}
	if cfg.comp {
		prop = propagation.NewCompositeTextMapPropagator(propagation.TraceContext{}, propagation.Baggage{})
	}
	popts := []kgo.Opt{kgo.SeedBrokers(cl.ListenAddrs()...), kgo.DefaultProduceTopic(topic), kgo.ProducerLinger(0)}
	copts := []kgo.Opt{kgo.SeedBrokers(cl.ListenAddrs()...), kgo.ConsumeTopics(topic), kgo.ConsumeResetOffset(kgo.NewOffset().AtStart())}
	var ptr, ctr *kotel.Tracer
	if cfg.provider != nil {
		topts := func(tag byte) []kotel.TracerOpt {
			o := []kotel.TracerOpt{kotel.TracerProvider(cfg.provider(tag)), kotel.TracerPropagator(prop), kotel.ClientID("c37"), kotel.ConsumerGroup("g")}
			if cfg.link {
				o = append(o, kotel.LinkSpans())
			}
			return o
		}
		ptr, ctr = kotel.NewTracer(topts(0xA1)...), kotel.NewTracer(topts(0xB2)...)
		popts = append(popts, kgo.WithHooks(ptr))
		copts = append(copts, kgo.WithHooks(ctr))
	}
	pc, err := kgo.NewClient(popts...)
	if err != nil {
		r.Inconclusive("producer client: " + err.Error())
		return
	}
	defer pc.Close()
	cc, err := kgo.NewClient(copts...)
	if err != nil {
		r.Inconclusive("consumer client: " + err.Error())
		return
	}
	defer cc.Close()

	rng := r.Rand("e2e-"+cfg.name, 0)
	cases := make([]*e2eCase, n)
	var wg sync.WaitGroup
	var mu sync.Mutex
	var perr error
	for i := 0; i < n; i++ {
		c := &e2eCase{idx: i}
		cases[i] = c
		if rng.IntN(10) != 0 {
			c.parent = genSpanContext(rng)
		}
		rec := &kgo.Record{Key: []byte(strconv.Itoa(i)), Value: genVal(rng)}
		pool := 2 + rng.IntN(len(keyPool)-1)
		for j, nh := 0, rng.IntN(5); j < nh; j++ {
			k := genKey(rng, pool)
			v := genVal(rng)
			if k == "traceparent" && rng.IntN(2) == 0 { // a stale but well-formed parent from an earlier hop
				v = []byte("00-0123456789abcdef0123456789abcdef-0123456789abcdef-01")
			}
			if k == "tracestate" && rng.IntN(2) == 0 {
				v = []byte("stale=1")
			}
			rec.Headers = append(rec.Headers, kgo.RecordHeader{Key: k, Value: v})
		}
		c.initial = snapshot(rec)
		ctx := context.Background()
		if c.parent.IsValid() {
			ctx = trace.ContextWithSpanContext(ctx, c.parent)
		}
		rec.Context = ctx
		if cfg.provider == nil { // the application injects by hand through the carrier
			prop.Inject(ctx, kotel.NewRecordCarrier(rec))
		}
		wg.Add(1)
		pc.Produce(context.Background(), rec, func(pr *kgo.Record, err error) {
			defer wg.Done()
			mu.Lock()
			defer mu.Unlock()
			if err != nil {
				perr = err
				return
			}
			c.delivered = true
			c.injected = trace.SpanContextFromContext(pr.Context)
			c.headers = snapshot(pr)
		})
	}
	done := make(chan struct{})
	go func() { wg.Wait(); close(done) }()
	select {
	case <-done:
	case <-time.After(2 * time.Minute):
		r.Inconclusive(cfg.name + ": produce watchdog fired")
		return
	}
	if perr != nil {
		r.Inconclusive(cfg.name + ": produce failed: " + perr.Error())
		return
	}

	// consume
	got := 0
	seen := make([]bool, n)
	deadline := time.Now().Add(2 * time.Minute)
	for got < n {
		if time.Now().After(deadline) {
			r.Inconclusive(fmt.Sprintf("%s: consume watchdog fired after %d of %d records", cfg.name, got, n))
			return
		}
		pctx, cancel := context.WithTimeout(context.Background(), 10*time.Second)
		fs := cc.PollFetches(pctx)
		cancel()
		fs.EachRecord(func(rec *kgo.Record) {
			i, err := strconv.Atoi(string(rec.Key))
			if err != nil || i < 0 || i >= n || seen[i] {
				return
			}
			seen[i] = true
			got++
			judgeE2E(f, r, cfg, prop, cases[i], rec)
		})
	}
}

// judgeE2E compares what arrived at the consumer with what left the producer.
func judgeE2E(f *failer, r *vh.Run, cfg e2eConfig, prop propagation.TextMapPropagator, c *e2eCase, rec *kgo.Record) {
	r.Eval(1)
	ctxDesc := func() string {
		return fmt.Sprintf("config %s record %d: application context {%s}, initial headers [%s], headers sent [%s], headers received [%s]",
			cfg.name, c.idx, scString(c.parent), fmtHdrs(c.initial), fmtHdrs(c.headers), fmtHdrs(snapshot(rec)))
	}
	// the wire keeps headers
	if !sameHdrs(c.headers, snapshot(rec)) {
		f.failf("e2e-headers-changed-on-the-wire", "%s", ctxDesc())
		return
	}
	// reference: the same propagator over a plain map seeded with the application's headers
	model := propagation.MapCarrier{}
	for i := len(c.initial) - 1; i >= 0; i-- { // first occurrence wins
		model[c.initial[i].k] = string(c.initial[i].v)
	}
	var injected trace.SpanContext
	if cfg.provider == nil {
		injected = c.parent
	} else {
		injected = c.injected // the publish span the hook created (noop provider: the parent itself)
	}
	ictx := context.Background()
	if injected.IsValid() {
		ictx = trace.ContextWithSpanContext(ictx, injected)
	}
	propagation.TraceContext{}.Inject(ictx, model)
	want := trace.SpanContextFromContext(propagation.TraceContext{}.Extract(context.Background(), model))

	// what the consumer side extracted
	var gotSC trace.SpanContext
	switch {
	case cfg.provider == nil:
		gotSC = trace.SpanContextFromContext(prop.Extract(context.Background(), kotel.NewRecordCarrier(rec)))
	default:
		if rec.Context == nil {
			f.failf("e2e-consumer-hook-left-no-context", "%s", ctxDesc())
			return
		}
		sp := trace.SpanFromContext(rec.Context)
		if rs, ok := sp.(*recSpan); ok {
			if cfg.link {
				if len(rs.links) > 0 {
					gotSC = rs.links[0].SpanContext
				}
			} else {
				gotSC = rs.parent
			}
			if rs.name != rec.Topic+" receive" {
				f.failf("e2e-consumer-span-is-not-the-receive-span", "span %q: %s", rs.name, ctxDesc())
			}
		} else {
			gotSC = sp.SpanContext() // noop provider hands the extracted remote context through
		}
	}
	stale := false
	for _, h := range c.initial {
		if h.k == "traceparent" || h.k == "tracestate" {
			stale = true
		}
	}
	feature := "plain"
	switch {
	case !injected.IsValid():
		feature = "nothing-injected"
	case stale:
		feature = "stale-trace-headers"
	case injected.TraceState().Len() > 0:
		feature = "tracestate"
	}
	r.DistinctHash("e2e", cfg.name, feature, len(c.initial), injected.TraceFlags(), injected.TraceState().Len(), dupKeys(c.initial))
	r.Count("e2e_"+cfg.name+"_"+feature, 1)
	if r.WantSample() && injected.TraceState().Len() > 0 {
		r.Sample(map[string]any{"kind": "e2e", "config": cfg.name, "injected": scString(injected), "extracted": scString(gotSC), "headers_received": fmtHdrs(snapshot(rec))})
	}
	if !injected.IsValid() && !stale {
		if gotSC.IsValid() {
			f.failf("e2e-extracted-context-from-nothing", "extracted {%s}: %s", scString(gotSC), ctxDesc())
		}
		return
	}
	if !scEqual(gotSC, want) {
		f.failf("e2e-extracted-differs-from-injected/"+cfg.name, "injected {%s}; reference extraction {%s}; consumer side extracted {%s}: %s", scString(injected), scString(want), scString(gotSC), ctxDesc())
		return
	}
	if want.IsValid() && !gotSC.IsRemote() {
		f.failf("e2e-extracted-context-not-remote", "%s", ctxDesc())
	}
	// injected by the hook == what the application context said (same trace; noop: same span)
	if cfg.provider != nil && c.parent.IsValid() {
		if c.injected.TraceID() != c.parent.TraceID() {
			f.failf("e2e-producer-hook-left-the-trace", "publish span {%s} is not in the application's trace: %s", scString(c.injected), ctxDesc())
		}
	}
}

func dupKeys(hs []hdr) bool {
	seen := map[string]bool{}
	for _, h := range hs {
		if seen[h.k] {
			return true
		}
		seen[h.k] = true
	}
	return false
}

func TestCheck(t *testing.T) {
	r := vh.Start(t, "C37")
	f := &failer{r: r}
	workers := runtime.NumCPU()

	// 1. carrier against the model
	nseq := r.Pick(200_000, 20_000_000)
	vh.Parallel(workers, workers, func(w int) {
		rng := r.Rand("carrier", w)
		for k := 0; k < nseq/workers; k++ {
			shape := checkSequence(f, r, rng)
			r.Eval(1)
			if shape != "" {
				r.Distinct("seq " + shape)
			}
			if r.Violations() >= 20 {
				return
			}
		}
	})
	r.Sample(map[string]any{"kind": "carrier sequence", "example": "headers [a=1 a=2 b=3]; Set(a,9) Get(a) Keys() Set(c,4) ..."})

	// 2. end to end through kfake with the kotel hooks
	cfgs := []e2eConfig{
		{name: "hooks-noop-provider", provider: func(byte) trace.TracerProvider { return noop.NewTracerProvider() }},
		{name: "hooks-recording-provider", provider: func(tag byte) trace.TracerProvider { return &recProvider{tag: tag} }},
		{name: "hooks-recording-provider-linkspans-composite", provider: func(tag byte) trace.TracerProvider { return &recProvider{tag: tag} }, link: true, comp: true},
		{name: "direct-propagator", provider: nil},
	}
	topics := make([]string, len(cfgs))
	for i := range cfgs {
		topics[i] = "t" + strconv.Itoa(i)
	}
	cl, err := kfake.NewCluster(kfake.NumBrokers(1), kfake.SeedTopics(1, topics...))
	if err != nil {
		r.Inconclusive("kfake cluster: " + err.Error())
	} else {
		defer cl.Close()
		ne := r.Pick(5_000, 100_000)
		var wg sync.WaitGroup
		for i, cfg := range cfgs {
			wg.Add(1)
			go func() {
				defer wg.Done()
				runE2E(f, r, cl, i, cfg, ne)
			}()
		}
		wg.Wait()
	}

	r.Set("exhaustive", false)
	r.Finish("exploration",
		"carrier: seeded header lists of 0-8 headers over a pool of 2-11 keys (duplicates, empty key, non-UTF-8, nil/empty values) and 1-14 random Set/Get/Keys operations, each compared with a reference header list; non-trivial: every sequence; distinct by (header count, duplicates present, #Set, #new keys, #ops classes). End to end: records with generated span contexts (random/boundary ids, flags 0-3 and arbitrary, 0-4 tracestate members, no context) and 0-4 application headers (incl. stale traceparent/tracestate, duplicates) produced through a kgo client with kotel hooks to kfake and consumed by a second client with kotel hooks; 4 configurations (noop provider, span-creating provider, LinkSpans+composite propagator, propagator driven directly through the carrier); a case = one record; distinct by (configuration, feature, #headers, flags, #tracestate members, duplicate keys)",
		"kfake stands in for a Kafka broker; loopback TCP",
		"the W3C propagator of go.opentelemetry.io/otel v1.43 run over a plain propagation.MapCarrier is the reference for what must be extracted (it masks flags to the two spec-defined bits)",
		"the span-creating tracer provider is a 40-line stand-in written in the harness (the otel SDK version in the module cache does not match otel v1.43); the noop provider is the real go.opentelemetry.io/otel/trace/noop",
		"for keys that occur several times with different values, Get is judged only after a Set of that key (a map has one value per key); after Set(k) the other headers named k are not judged",
	)
}
