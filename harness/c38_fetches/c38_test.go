// C38 — Fetches accessors agree with each other.
//
// Monitor: a self-consistency oracle over generated kgo.Fetches values. The
// record sequences produced by RecordIter, RecordsAll, EachRecord and Records
// are compared pairwise (pointer identity, order) and with the multiset of
// records present in the structure; NumRecords/Empty with the count;
// EachPartition/EachTopic with the set of partitions in the structure (every
// partition carries a unique tag); Errors/EachError with the partitions whose
// Err is non-nil.
package c38

import (
	"context"
	"errors"
	"fmt"
	"math/rand/v2"
	"runtime"
	"sort"
	"strings"
	"testing"

	"github.com/twmb/franz-go/pkg/kerr"
	"github.com/twmb/franz-go/pkg/kgo"

	"verifharness/internal/vh"
)

var topicNames = []string{"a", "b", "c", "", "topic-with-a-long-name"}

func topicID(name string, variant byte) (id [16]byte) {
	for i := range id {
		id[i] = byte(len(name)*7+i) ^ variant
	}
	id[0] = 0xA0 | variant // never the zero id
	return
}

var errPool = []error{
	errors.New("plain error"),
	context.Canceled,
	context.DeadlineExceeded,
	kerr.UnknownTopicOrPartition,
	kerr.OffsetOutOfRange,
	kgo.ErrClientClosed,
	&kgo.ErrDataLoss{Topic: "a", Partition: 1, ConsumedTo: 10, ResetTo: 3},
	fmt.Errorf("wrapped: %w", kerr.NotLeaderForPartition),
}

type genInfo struct {
	fs           kgo.Fetches
	shape        string
	dupInFetch   bool            // some fetch lists one topic name twice
	conflictID   map[string]bool // topic name seen with two different non-zero ids
	features     int             // how many of the "awkward" features the input has
	nparts, nrec int
}

func gen(rng *rand.Rand) genInfo {
	g := genInfo{conflictID: map[string]bool{}}
	var sb strings.Builder
	nf := 0
	switch rng.IntN(10) {
	case 0:
		nf = 0
	case 1, 2, 3:
		nf = 1
	default:
		nf = 2 + rng.IntN(3)
	}
	if nf == 0 && rng.IntN(2) == 0 {
		g.fs = nil
	} else {
		g.fs = make(kgo.Fetches, 0, nf)
	}
	tag := int64(1)
	pool := 1 + rng.IntN(len(topicNames))
	idSeen := map[string][16]byte{}
	seenTopic := map[string]int{}
	feat := map[string]bool{}
	for fi := 0; fi < nf; fi++ {
		var f kgo.Fetch
		nt := rng.IntN(4)
		if rng.IntN(6) == 0 {
			nt = 0
			feat["empty-fetch"] = true
		}
		inFetch := map[string]bool{}
		sb.WriteString("F[")
		for ti := 0; ti < nt; ti++ {
			name := topicNames[rng.IntN(pool)]
			if inFetch[name] {
				if rng.IntN(10) != 0 {
					continue
				}
				g.dupInFetch = true
			}
			inFetch[name] = true
			t := kgo.FetchTopic{Topic: name}
			idKind := rng.IntN(10)
			switch {
			case idKind < 5:
				t.TopicID = topicID(name, 0)
			case idKind == 5:
				t.TopicID = topicID(name, 1) // a different id under the same name
			default: // no id in this response
				feat["no-id"] = true
			}
			if t.TopicID != ([16]byte{}) {
				if prev, ok := idSeen[name]; ok && prev != t.TopicID {
					g.conflictID[name] = true
				}
				idSeen[name] = t.TopicID
			}
			seenTopic[name]++
			if seenTopic[name] > 1 {
				feat["repeated-topic"] = true
			}
			np := rng.IntN(5)
			if rng.IntN(6) == 0 {
				np = 0
				feat["topic-without-partitions"] = true
			}
			fmt.Fprintf(&sb, "T%d.%v(", len(name), t.TopicID != [16]byte{})
			for pi := 0; pi < np; pi++ {
				p := kgo.FetchPartition{Partition: int32(rng.IntN(6)), HighWatermark: tag, LastStableOffset: tag, LogStartOffset: -tag}
				tag++
				g.nparts++
				hasErr := rng.IntN(4) == 0
				if hasErr {
					p.Err = errPool[rng.IntN(len(errPool))]
					feat["error"] = true
				}
				nr := 0
				switch rng.IntN(8) {
				case 0: // nil slice
					feat["no-records"] = true
				case 1:
					p.Records = []*kgo.Record{}
					feat["no-records"] = true
				case 2:
					nr = 1
				default:
					nr = 1 + rng.IntN(5)
				}
				if hasErr && nr > 0 {
					feat["error-with-records"] = true
				}
				for ri := 0; ri < nr; ri++ {
					p.Records = append(p.Records, &kgo.Record{Topic: name, Partition: p.Partition, Offset: int64(g.nrec)})
					g.nrec++
				}
				fmt.Fprintf(&sb, "%d%v,", nr, hasErr)
				t.Partitions = append(t.Partitions, p)
			}
			sb.WriteString(")")
			f.Topics = append(f.Topics, t)
		}
		sb.WriteString("]")
		g.fs = append(g.fs, f)
	}
	if g.dupInFetch {
		feat["dup-in-fetch"] = true
	}
	g.features = len(feat)
	g.shape = sb.String()
	return g
}

type failer struct {
	r *vh.Run
}

func (f *failer) failf(sig string, g *genInfo, format string, a ...any) {
	f.r.Violation(sig, map[string]any{"what": fmt.Sprintf(format, a...), "fetches": describe(g.fs)})
}

func describe(fs kgo.Fetches) any {
	var out []any
	for _, f := range fs {
		var ts []any
		for _, t := range f.Topics {
			var ps []any
			for _, p := range t.Partitions {
				var offs []int64
				for _, r := range p.Records {
					offs = append(offs, r.Offset)
				}
				ps = append(ps, map[string]any{"partition": p.Partition, "tag": p.HighWatermark, "err": fmt.Sprint(p.Err), "record_ids": offs, "records_nil": p.Records == nil})
			}
			ts = append(ts, map[string]any{"topic": t.Topic, "id": fmt.Sprintf("%x", t.TopicID[:2]), "partitions": ps})
		}
		out = append(out, map[string]any{"topics": ts})
	}
	return out
}

func samePtrs(a, b []*kgo.Record) bool {
	if len(a) != len(b) {
		return false
	}
	for i := range a {
		if a[i] != b[i] {
			return false
		}
	}
	return true
}

func ids(rs []*kgo.Record) []int64 {
	out := make([]int64, len(rs))
	for i, r := range rs {
		if r == nil {
			out[i] = -1
		} else {
			out[i] = r.Offset
		}
	}
	return out
}

func sameSlice(a, b []*kgo.Record) bool {
	if len(a) != len(b) {
		return false
	}
	return len(a) == 0 || &a[0] == &b[0]
}

type errKey struct {
	topic string
	part  int32
	err   error
}

func errMultiset(m map[errKey]int) string {
	var s []string
	for k, n := range m {
		s = append(s, fmt.Sprintf("%q/%d/%v x%d", k.topic, k.part, k.err, n))
	}
	sort.Strings(s)
	return strings.Join(s, "; ")
}

func checkOne(f *failer, r *vh.Run, rng *rand.Rand, g *genInfo) {
	fs := g.fs

	// ground truth by walking the structure
	var all []*kgo.Record
	type pinfo struct {
		topic string
		p     *kgo.FetchPartition
	}
	byTag := map[int64]pinfo{}
	wantErrs := map[errKey]int{}
	topicsSeen := map[string]bool{}
	wantID := map[string][16]byte{}
	for fi := range fs {
		for ti := range fs[fi].Topics {
			t := &fs[fi].Topics[ti]
			topicsSeen[t.Topic] = true
			if t.TopicID != ([16]byte{}) {
				wantID[t.Topic] = t.TopicID
			}
			for pi := range t.Partitions {
				p := &t.Partitions[pi]
				byTag[p.HighWatermark] = pinfo{t.Topic, p}
				all = append(all, p.Records...)
				if p.Err != nil {
					wantErrs[errKey{t.Topic, p.Partition, p.Err}]++
				}
			}
		}
	}

	var panicked any
	run := func(name string, fn func()) bool {
		if p := vh.Catch(fn); p != nil {
			panicked = p
			r.Inconclusive(fmt.Sprintf("%s panicked on %s: %v (the property does not speak about panics)", name, g.shape, p))
			return false
		}
		return true
	}

	// 1. record sequences
	var seqIter, seqAll, seqEach, seqRecs []*kgo.Record
	ok := run("RecordIter", func() {
		for it := fs.RecordIter(); !it.Done(); {
			seqIter = append(seqIter, it.Next())
			if len(seqIter) > len(all)+8 {
				break
			}
		}
	})
	ok = run("RecordsAll", func() {
		for rec := range fs.RecordsAll() {
			seqAll = append(seqAll, rec)
		}
	}) && ok
	ok = run("EachRecord", func() { fs.EachRecord(func(rec *kgo.Record) { seqEach = append(seqEach, rec) }) }) && ok
	ok = run("Records", func() { seqRecs = fs.Records() }) && ok
	if !ok {
		return
	}
	pairs := []struct {
		an, bn string
		a, b   []*kgo.Record
	}{
		{"RecordIter", "RecordsAll", seqIter, seqAll},
		{"RecordIter", "EachRecord", seqIter, seqEach},
		{"RecordIter", "Records", seqIter, seqRecs},
		{"RecordsAll", "EachRecord", seqAll, seqEach},
		{"RecordsAll", "Records", seqAll, seqRecs},
		{"EachRecord", "Records", seqEach, seqRecs},
	}
	for _, p := range pairs {
		if !samePtrs(p.a, p.b) {
			f.failf("sequence-differs-"+p.an+"-vs-"+p.bn, g, "%s visits %v but %s visits %v", p.an, ids(p.a), p.bn, ids(p.b))
		}
	}
	// every record of the structure exactly once
	count := map[*kgo.Record]int{}
	for _, rec := range seqIter {
		count[rec]++
	}
	for _, rec := range all {
		count[rec]--
	}
	for rec, n := range count {
		if n != 0 {
			id := int64(-1)
			if rec != nil {
				id = rec.Offset
			}
			f.failf("RecordIter-not-the-records-of-the-fetches", g, "record id %d visited %+d times relative to the structure; iter %v structure %v", id, n, ids(seqIter), ids(all))
			break
		}
	}
	// 2. NumRecords / Empty
	var num int
	var empty bool
	if !run("NumRecords", func() { num = fs.NumRecords() }) || !run("Empty", func() { empty = fs.Empty() }) {
		return
	}
	if num != len(seqIter) {
		f.failf("NumRecords-differs-from-visited-count", g, "NumRecords %d but %d records are visited", num, len(seqIter))
	}
	if empty != (num == 0) {
		f.failf("Empty-disagrees-with-NumRecords", g, "Empty %v but NumRecords %d", empty, num)
	}
	// 3. RecordsAll stops when asked to
	if len(seqIter) > 0 {
		k := 1 + rng.IntN(len(seqIter))
		var got []*kgo.Record
		if run("RecordsAll-break", func() {
			for rec := range fs.RecordsAll() {
				got = append(got, rec)
				if len(got) == k {
					break
				}
			}
		}) && !samePtrs(got, seqIter[:k]) {
			f.failf("RecordsAll-prefix-differs", g, "stopping after %d: got %v want %v", k, ids(got), ids(seqIter[:k]))
		}
	}
	// 4. EachPartition
	visited := map[int64]int{}
	if !run("EachPartition", func() {
		fs.EachPartition(func(p kgo.FetchTopicPartition) {
			visited[p.HighWatermark]++
			want, ok := byTag[p.HighWatermark]
			if !ok {
				f.failf("EachPartition-unknown-partition", g, "visited a partition with tag %d that is not in the fetches", p.HighWatermark)
				return
			}
			if p.Topic != want.topic || p.Partition != want.p.Partition || p.Err != want.p.Err || !sameSlice(p.Records, want.p.Records) ||
				p.LastStableOffset != want.p.LastStableOffset || p.LogStartOffset != want.p.LogStartOffset {
				f.failf("EachPartition-wrong-content", g, "tag %d: got topic %q partition %d err %v records %v; want topic %q partition %d err %v records %v",
					p.HighWatermark, p.Topic, p.Partition, p.Err, ids(p.Records), want.topic, want.p.Partition, want.p.Err, ids(want.p.Records))
			}
		})
	}) {
		return
	}
	for tag := range byTag {
		if visited[tag] != 1 {
			f.failf("EachPartition-not-exactly-once", g, "partition tag %d visited %d times", tag, visited[tag])
			break
		}
	}
	// 5. EachTopic
	tvisited := map[int64]int{}
	tcalls := map[string]int{}
	if !run("EachTopic", func() {
		fs.EachTopic(func(t kgo.FetchTopic) {
			tcalls[t.Topic]++
			if !topicsSeen[t.Topic] {
				f.failf("EachTopic-unknown-topic", g, "visited topic %q that is not in the fetches", t.Topic)
			}
			if !g.dupInFetch && !g.conflictID[t.Topic] && t.TopicID != wantID[t.Topic] {
				f.failf("EachTopic-topic-id-lost", g, "topic %q visited with id %x, the fetches carry id %x", t.Topic, t.TopicID, wantID[t.Topic])
			}
			for i := range t.Partitions {
				p := &t.Partitions[i]
				tvisited[p.HighWatermark]++
				want, ok := byTag[p.HighWatermark]
				if !ok {
					f.failf("EachTopic-unknown-partition", g, "topic %q lists a partition with tag %d that is not in the fetches", t.Topic, p.HighWatermark)
					continue
				}
				if t.Topic != want.topic || p.Partition != want.p.Partition || p.Err != want.p.Err || !sameSlice(p.Records, want.p.Records) {
					f.failf("EachTopic-wrong-content", g, "tag %d under topic %q: partition %d err %v records %v; want topic %q partition %d err %v records %v",
						p.HighWatermark, t.Topic, p.Partition, p.Err, ids(p.Records), want.topic, want.p.Partition, want.p.Err, ids(want.p.Records))
				}
			}
		})
	}) {
		return
	}
	for tag := range byTag {
		if tvisited[tag] != 1 {
			f.failf("EachTopic-partition-not-exactly-once", g, "partition tag %d (topic %q) visited %d times", tag, byTag[tag].topic, tvisited[tag])
			break
		}
	}
	if g.dupInFetch {
		r.Count("dontcare_topic_listed_twice_in_one_fetch", 1)
	} else {
		for name := range topicsSeen {
			if tcalls[name] != 1 {
				f.failf("EachTopic-topic-not-merged", g, "topic %q visited %d times", name, tcalls[name])
				break
			}
		}
	}
	if len(g.conflictID) > 0 {
		r.Count("dontcare_topic_with_two_ids", 1)
	}
	// 6. Errors / EachError
	gotErrs := map[errKey]int{}
	gotEach := map[errKey]int{}
	if !run("Errors", func() {
		for _, e := range fs.Errors() {
			gotErrs[errKey{e.Topic, e.Partition, e.Err}]++
		}
	}) || !run("EachError", func() {
		fs.EachError(func(t string, p int32, err error) { gotEach[errKey{t, p, err}]++ })
	}) {
		return
	}
	if a, b := errMultiset(gotErrs), errMultiset(wantErrs); a != b {
		f.failf("Errors-differs-from-erroring-partitions", g, "Errors() = {%s}; partitions with Err = {%s}", a, b)
	}
	if a, b := errMultiset(gotEach), errMultiset(wantErrs); a != b {
		f.failf("EachError-differs-from-erroring-partitions", g, "EachError = {%s}; partitions with Err = {%s}", a, b)
	}
	_ = panicked
}

func TestCheck(t *testing.T) {
	r := vh.Start(t, "C38")
	f := &failer{r: r}
	workers := runtime.NumCPU()

	// hand-written shapes
	rec := func(i int64) *kgo.Record { return &kgo.Record{Offset: i} }
	fixed := []kgo.Fetches{
		nil,
		{},
		{{}},
		{{}, {}},
		{{Topics: []kgo.FetchTopic{{Topic: "a"}}}},
		{{Topics: []kgo.FetchTopic{{Topic: "a", Partitions: []kgo.FetchPartition{{Partition: 0, HighWatermark: 1}}}}}},
		{{Topics: []kgo.FetchTopic{{Topic: "a", Partitions: []kgo.FetchPartition{{Partition: 0, HighWatermark: 1, Err: errPool[0]}}}}}},
		{ // topic spread over two fetches, id only in the first
			{Topics: []kgo.FetchTopic{{Topic: "a", TopicID: topicID("a", 0), Partitions: []kgo.FetchPartition{{Partition: 0, HighWatermark: 1, Records: []*kgo.Record{rec(0), rec(1)}}}}}},
			{Topics: []kgo.FetchTopic{{Topic: "a", Partitions: []kgo.FetchPartition{{Partition: 1, HighWatermark: 2, Records: []*kgo.Record{rec(2)}}}}}},
		},
		{ // id only in the last
			{Topics: []kgo.FetchTopic{{Topic: "a", Partitions: []kgo.FetchPartition{{Partition: 0, HighWatermark: 1, Records: []*kgo.Record{rec(0)}}}}}},
			{},
			{Topics: []kgo.FetchTopic{{Topic: "b", TopicID: topicID("b", 0), Partitions: []kgo.FetchPartition{{Partition: 0, HighWatermark: 2, Err: errPool[1], Records: []*kgo.Record{rec(1)}}}},
				{Topic: "a", TopicID: topicID("a", 0), Partitions: []kgo.FetchPartition{{Partition: 1, HighWatermark: 3}, {Partition: 2, HighWatermark: 4, Records: []*kgo.Record{rec(2), rec(3)}}}}}},
		},
		{ // records only in the very last partition, empties before
			{Topics: []kgo.FetchTopic{{Topic: "a", Partitions: []kgo.FetchPartition{{Partition: 0, HighWatermark: 1}, {Partition: 1, HighWatermark: 2, Records: []*kgo.Record{}}}}, {Topic: "b"}}},
			{Topics: []kgo.FetchTopic{{Topic: "c", Partitions: []kgo.FetchPartition{{Partition: 0, HighWatermark: 3}, {Partition: 9, HighWatermark: 4, Records: []*kgo.Record{rec(0)}}}}}},
		},
	}
	for i, fs := range fixed {
		g := genInfo{fs: fs, shape: fmt.Sprintf("fixed-%d", i), conflictID: map[string]bool{}}
		checkOne(f, r, r.Rand("fixed", i), &g)
		r.Eval(1)
		r.Distinct(g.shape)
	}

	n := r.Pick(300_000, 20_000_000)
	vh.Parallel(workers, workers, func(w int) {
		rng := r.Rand("gen", w)
		for k := 0; k < n/workers; k++ {
			g := gen(rng)
			checkOne(f, r, rng, &g)
			r.Eval(1)
			if len(g.fs) > 0 && g.features > 0 {
				r.DistinctHash(g.shape)
			}
			r.Count("partitions", g.nparts)
			r.Count("records", g.nrec)
			if g.features >= 4 && r.WantSample() {
				r.Sample(map[string]any{"shape": g.shape, "fetches": describe(g.fs)})
			}
			if r.Violations() >= 20 {
				return
			}
		}
	})
	r.Set("exhaustive", false)
	r.Finish("exploration",
		"cases: seeded Fetches of 0-4 fetches x 0-3 topics (names from a pool of 1-5 so topics repeat across fetches; topic id present / absent / conflicting) x 0-4 partitions (unique tag, error in 1/4, records nil / empty / 1-5 unique pointers), plus 10 hand-written shapes; non-trivial when the value has at least one fetch and one of: empty fetch, topic without partitions, partition without records, repeated topic, response without topic id, partition error, error together with records; distinct by hash of the shape (per fetch/topic/partition: name, id present, record count, error present)",
		"ground truth is a plain nested-loop walk of the generated structure in the harness",
		"order is compared only between the four record accessors, not against the structure; Errors/EachError are compared as multisets",
		"a topic listed twice inside ONE fetch is generated but neither 'EachTopic calls fn once per topic' nor the topic id is judged for it (the statement speaks of merging ACROSS fetches); a topic name carrying two different non-zero ids is generated but its id is not judged",
		"a panic inside an accessor would be reported as inconclusive, not as a violation (the statement does not mention panics)",
	)
}
