// C39 — direct consumers consume exactly the partitions they select.
//
// Scenario: a direct (group-less) consumer configured with ConsumeTopics,
// ConsumeRegex (+ ConsumeExcludeTopics), ConsumePartitions or a mix, against a
// kfake cluster. One driver goroutine executes a seeded history of admin
// operations (topics created later - matching, not matching, internal -,
// CreatePartitions, DeleteTopics) interleaved with consumer API calls
// (AddConsumeTopics, AddConsumePartitions, RemoveConsumePartitions,
// PurgeTopicsFromConsuming, PurgeTopicsFromClient) while producers write
// uniquely identified records to every partition of every topic, selected or
// not, and the consumer polls. Every poll and every API call is stamped with
// one logical clock.
//
// Oracle: a reference model of the selection (gen_test.go) computed from the
// same history. (1) every returned record belongs to a partition that is
// allowed by some model state that can be in effect during the poll - a poll
// that started after Remove/Purge returned can only see the states after it;
// (2) every returned record is the record the broker log holds at that
// topic/partition/offset; (3) every partition selected in the final state
// yields all records of its log (read back with raw Fetch) - in virtual time a
// bound, in real time a time-out is inconclusive. Cases the docs and the
// property statement leave open are generated but only counted (dontcare_*).
package c39

import (
	"fmt"
	"os"
	"sort"
	"strings"
	"sync"
	"testing"
	"time"

	"verifharness/internal/e2e"
	"verifharness/internal/vh"
)

type overlaps struct {
	mu sync.Mutex
	m  map[string]bool
	n  int
}

func (o *overlaps) add(res *Result) {
	o.mu.Lock()
	defer o.mu.Unlock()
	o.n++
	for _, op := range res.Ops {
		switch op.Step.Kind {
		case "create-topic", "grow", "delete-topic":
			continue
		}
		for _, pl := range res.Polls {
			if pl.S < op.Ret && pl.E > op.Call {
				o.m[pl.Kind+"|"+apiName(op.Step.Kind)] = true
			}
		}
	}
}

func apiName(kind string) string {
	return map[string]string{"add-topics": "AddConsumeTopics", "add-partitions": "AddConsumePartitions", "remove-partitions": "RemoveConsumePartitions",
		"purge-consuming": "PurgeTopicsFromConsuming", "purge-client": "PurgeTopicsFromClient"}[kind]
}

func witness(res *Result, mode, detail string) map[string]any {
	return map[string]any{"mode": mode, "plan": res.Plan, "ops": res.Ops, "states": res.States, "detail": detail,
		"missing": res.Missing, "fetch_errors": res.FetchErrs, "faults": res.Fired, "polls": len(res.Polls)}
}

// classify names why (t,p) is not allowed in state st.
func classify(m *model, res *Result, firstOverlap int, t string, p int32) string {
	// was it allowed in an earlier state? then the entry that ended that is the culprit
	for j := firstOverlap - 1; j >= 0; j-- {
		if m.may(res.States[j], t, p) {
			return "record-of-removed-partition-returned-by-poll-started-after-" + apiName(res.States[j+1].Op) + "-returned"
		}
	}
	if m.regex {
		inc, exc := m.reMatch(t)
		switch {
		case inc && !exc && m.internal[t]:
			return "record-of-internal-topic-consumed-through-regex"
		case inc && exc:
			return "record-of-regex-excluded-topic"
		}
		return "record-of-topic-not-matching-regex"
	}
	if res.States[firstOverlap].Topics[t] == nil {
		return "record-of-topic-never-selected"
	}
	return "record-of-partition-never-selected"
}

func judge(r *vh.Run, res *Result, mode string) {
	if len(res.Inconcl) > 0 {
		r.Inconclusive(fmt.Sprintf("%s: %v", mode, res.Inconcl))
		return
	}
	m := res.Model
	st := res.States
	// ---- (1)(2): every returned record
	nrec := 0
	seenUnsel := map[tp]bool{}
	for _, pl := range res.Polls {
		for _, rc := range pl.Recs {
			nrec++
			ok, first := false, -1
			for k := range st {
				nextRet := int64(1) << 62
				if k+1 < len(st) {
					nextRet = st[k+1].Ret
				}
				if pl.S > nextRet || pl.E < st[k].Call {
					continue
				}
				if first < 0 {
					first = k
				}
				if m.may(st[k], rc.T, rc.P) {
					ok = true
					break
				}
			}
			if !ok {
				sig := classify(m, res, first, rc.T, rc.P)
				r.Violation(res.Plan.Mode+": "+sig, witness(res, mode, fmt.Sprintf("poll [%d,%d] (%s) returned %s/%d@%d id=%s; states possibly in effect start at index %d",
					pl.S, pl.E, pl.Kind, rc.T, rc.P, rc.O, rc.ID, first)))
			}
			k := tp{rc.T, rc.P}
			if lm, have := res.Logs[k]; have {
				if id, in := lm[rc.O]; !in || id != rc.ID {
					r.Violation("returned-record-differs-from-broker-log", witness(res, mode, fmt.Sprintf("returned %s/%d@%d id=%q, log holds id=%q (present=%v)", rc.T, rc.P, rc.O, rc.ID, id, in)))
				}
			} else if wt := res.Topics[rc.T]; wt == nil || !wt.deleted {
				r.Violation("returned-record-of-nonexistent-partition", witness(res, mode, fmt.Sprintf("returned %s/%d@%d id=%q", rc.T, rc.P, rc.O, rc.ID)))
			}
		}
	}
	// ---- (3): eventually everything selected
	if !res.Complete {
		if mode == "vt" {
			k := res.Missing[0]
			name := k[:strings.Index(k, ":")]
			t := name[:strings.LastIndex(name, "/")]
			var p int32
			fmt.Sscanf(name[strings.LastIndex(name, "/")+1:], "%d", &p)
			wt := res.Topics[t]
			prov := "initial-partition"
			switch {
			case int(p) >= wt.initParts:
				prov = "partition-added-later"
			case wt.later:
				prov = "topic-created-later"
			}
			path := "regex"
			if !m.regex {
				s := st[len(st)-1].Topics[t]
				switch {
				case s.Whole:
					path = "named-topic"
				case s.Pinned[p]:
					path = "pinned-partition"
				default:
					path = "rest-of-topic-after-partial-remove"
				}
			} else if wt.purged {
				path = "regex-after-purge"
			}
			r.Violation("selected-partition-not-consumed-within-virtual-bound: "+path+", "+prov, witness(res, mode, res.Stacks))
		} else {
			r.Inconclusive("rt: selected partitions not fully consumed before the wall-clock watchdog: " + strings.Join(res.Missing, "; "))
		}
	}
	// ---- bookkeeping
	r.Count("records_returned", nrec)
	r.Count("records_acked", res.Produced)
	r.Count("polls", len(res.Polls))
	final := st[len(st)-1]
	for k, lm := range res.Logs {
		switch {
		case m.must(final, k.T, k.P):
			r.Count("final_partitions_required", 1)
		case m.may(final, k.T, k.P):
			r.Count("dontcare_final_partitions_allowed_not_required", 1)
		default:
			if len(lm) > 0 {
				seenUnsel[k] = true
			}
			if res.Topics[k.T].internal && m.regex {
				if inc, exc := m.reMatch(k.T); inc && !exc {
					r.Count("final_internal_partitions_matching_regex_with_records", 1)
				}
			}
		}
	}
	r.Count("final_partitions_unselected_with_records", len(seenUnsel))
	for k, n := range m.dontcare {
		r.Count("dontcare_"+k, n)
	}
	changed := false
	var quals []string
	for _, op := range res.Ops {
		r.Count("op_"+op.Qual, 1)
		quals = append(quals, op.Qual)
		changed = changed || op.Changed
	}
	for k, n := range res.Fired {
		r.Count("fault_"+k, int(n))
	}
	if changed && res.Complete {
		r.DistinctHash(res.Plan.Mode, quals)
		if r.WantSample() {
			r.Sample(map[string]any{"mode": mode, "selection": res.Plan.Mode, "include": res.Plan.Include, "exclude": res.Plan.Exclude, "pin": res.Plan.Pin,
				"initial": res.Plan.Initial, "history": quals, "returned": nrec, "polls": len(res.Polls)})
		}
	}
}

func TestCheck(t *testing.T) {
	r := vh.Start(t, "C39")
	nRT := r.Pick(128, 3200)
	nVT := r.Pick(200, 5000)
	c41 := os.Getenv("VERIF_C41") != ""
	if c41 {
		nRT, nVT = r.Pick(24, 96), 0
	}
	if v := os.Getenv("VERIF_C39_N"); v != "" { // debugging aid: "rt,vt"
		fmt.Sscanf(v, "%d,%d", &nRT, &nVT)
	}
	if !e2e.HaveVT {
		nVT = 0
	}
	ov := &overlaps{m: map[string]bool{}}
	var sample any
	vh.Parallel(nRT, 8, func(i int) {
		rng := r.Rand("c39-rt", i)
		plan := GenPlan(rng, uint64(r.Seed)<<20|uint64(i), false)
		res := Run(plan, 60*time.Second, 30*time.Second)
		judge(r, res, "rt")
		ov.add(res)
		if i == 0 {
			sample = map[string]any{"workload": "c39_selection", "mode": plan.Mode, "steps": len(plan.Steps)}
		}
		r.Eval(1)
	})
	for i := 0; i < nVT; i++ {
		rng := r.Rand("c39-vt", i)
		plan := GenPlan(rng, uint64(r.Seed)<<20|uint64(1<<19+i), true)
		var res *Result
		fail := e2e.Bubble(t, func() { res = Run(plan, 30*time.Minute, 3*time.Minute) })
		if res == nil {
			r.Inconclusive("vt scenario produced no result: " + fail)
			continue
		}
		if fail != "" {
			r.Inconclusive("vt bubble: " + fail)
			continue
		}
		judge(r, res, "vt")
		r.Eval(1)
	}
	if c41 {
		var keys []string
		for k := range ov.m {
			keys = append(keys, k)
		}
		sort.Strings(keys)
		vh.C41Obs(ov.n, keys, sample)
	}
	r.Finish("exploration",
		"one evaluation = one seeded direct-consumer scenario: selection by ConsumeTopics / ConsumeRegex(+ConsumeExcludeTopics) / ConsumePartitions / topics+partitions, 2-4 initial topics, then a history of 4-9 entries drawn from {create topic (selected, unselected, internal), CreatePartitions, DeleteTopics, AddConsumeTopics, AddConsumePartitions, RemoveConsumePartitions (some / all partitions), PurgeTopicsFromConsuming, PurgeTopicsFromClient} executed while producers write to every partition of every topic and the consumer polls (PollFetches / PollRecords(1..8)); metadata kills and fetch delays on the consumer's connections; non-trivial = the selection changed during the run (a selected topic or partition appeared, or an API call changed the model) and the final selection was consumed completely; distinct by hash(selection mode, ordered list of qualified history kinds)",
		"the expected selection is a hand-written model of the documented API semantics; regular expressions come from a fixed table with hand-written predicates",
		"open cases are allowed but not required (counted as dontcare_*): rest of a named topic after a partial RemoveConsumePartitions or after AddConsumePartitions into it, pins of partitions that do not exist yet, AddConsumeTopics after a partial remove; regex mode: records after a purge are not judged because the docs say the topic is re-discovered",
		"ground truth is kfake's log read back with raw Fetch; deleted topics are not judged for completeness",
		"real-time scenarios only report inconclusive on time-outs; the eventual clause is a verdict only in virtual time (3 virtual minutes after the last produce)",
	)
}
