package c39

import (
	"encoding/json"
	"fmt"
	"os"
	"strconv"
	"testing"
	"time"

	"verifharness/internal/e2e"
	"verifharness/internal/vh"
)

// TestDebugPlan replays one plan (VERIF_PLAN = the "plan" object of a replay file) VERIF_N times.
func TestDebugPlan(t *testing.T) {
	r := vh.Start(t, "C39")
	var plan Plan
	if err := json.Unmarshal([]byte(os.Getenv("VERIF_PLAN")), &plan); err != nil {
		t.Fatal(err)
	}
	n, _ := strconv.Atoi(os.Getenv("VERIF_N"))
	if n == 0 {
		n = 1
	}
	for i := 0; i < n; i++ {
		p := plan
		p.Seed = plan.Seed + uint64(i)
		var res *Result
		if p.VT {
			if fail := e2e.Bubble(t, func() { res = Run(p, 30*time.Minute, 3*time.Minute) }); fail != "" {
				fmt.Println("bubble:", fail)
			}
			if res != nil {
				judge(r, res, "vt")
			}
		} else {
			res = Run(p, 60*time.Second, 30*time.Second)
			judge(r, res, "rt")
		}
		if res != nil {
			fmt.Println("complete:", res.Complete, "missing:", res.Missing, "inconclusive:", res.Inconcl, "fetch errors:", res.FetchErrs)
		}
	}
	fmt.Println("violations:", r.Violations())
}
