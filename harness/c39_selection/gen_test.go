package c39

import (
	"fmt"
	"math/rand/v2"
	"sort"
	"strings"
)

// ---------------------------------------------------------------- patterns
//
// Every regular expression the generator may hand to kgo comes from this
// table together with a hand-written predicate: the oracle never evaluates a
// regexp itself.

type pattern struct {
	Re    string
	match func(string) bool
}

func allIn(s, set string) bool {
	if s == "" {
		return false
	}
	for _, c := range s {
		if !strings.ContainsRune(set, c) {
			return false
		}
	}
	return true
}

var includeTable = []pattern{
	{"^aa-", func(n string) bool { return strings.HasPrefix(n, "aa-") }},
	{"^ab-", func(n string) bool { return strings.HasPrefix(n, "ab-") }},
	{"^bb-", func(n string) bool { return strings.HasPrefix(n, "bb-") }},
	{"^a[ab]-", func(n string) bool { return strings.HasPrefix(n, "aa-") || strings.HasPrefix(n, "ab-") }},
	{"^[ab]+-[0-9]+$", func(n string) bool {
		i := strings.IndexByte(n, '-')
		return i > 0 && allIn(n[:i], "ab") && allIn(n[i+1:], "0123456789")
	}},
	{"-x$", func(n string) bool { return strings.HasSuffix(n, "-x") }},
	{"b-", func(n string) bool { return strings.Contains(n, "b-") }},
}

var excludeTable = []pattern{
	{"-x$", func(n string) bool { return strings.HasSuffix(n, "-x") }},
	{"^ab-", func(n string) bool { return strings.HasPrefix(n, "ab-") }},
	{"^aa-[0-4]", func(n string) bool {
		return strings.HasPrefix(n, "aa-") && len(n) > 3 && n[3] >= '0' && n[3] <= '4'
	}},
	{"[13579]$", func(n string) bool { return n != "" && strings.ContainsRune("13579", rune(n[len(n)-1])) }},
	{"^bb-.*-int$", func(n string) bool { return strings.HasPrefix(n, "bb-") && strings.HasSuffix(n, "-int") && len(n) >= 7 }},
}

func lookup(tab []pattern, re string) func(string) bool {
	for _, p := range tab {
		if p.Re == re {
			return p.match
		}
	}
	panic("unknown pattern " + re)
}

// ---------------------------------------------------------------- plan

type TopicSpec struct {
	Name     string `json:"name"`
	Parts    int    `json:"parts"`
	Internal bool   `json:"internal,omitempty"`
}

// Step is one entry of the admin + API history, executed in order by one
// driver goroutine while producers and the consumer's poll loop run.
type Step struct {
	Kind     string   `json:"kind"` // create-topic grow delete-topic add-topics add-partitions remove-partitions purge-consuming purge-client
	Topic    string   `json:"topic,omitempty"`
	Topics   []string `json:"topics,omitempty"`
	Parts    []int32  `json:"parts,omitempty"` // add/remove-partitions
	N        int      `json:"n,omitempty"`     // create-topic: partitions; grow: partitions to add
	Internal bool     `json:"internal,omitempty"`
	SleepMs  int      `json:"sleep_ms"`
}

type Plan struct {
	Seed    uint64 `json:"seed"`
	VT      bool   `json:"vt"`
	Brokers int    `json:"brokers"`
	Mode    string `json:"mode"` // topics regex partitions mixed

	Include []string           `json:"include,omitempty"` // topic names (topics/mixed) or regular expressions (regex)
	Exclude []string           `json:"exclude,omitempty"` // regex mode only
	Pin     map[string][]int32 `json:"pin,omitempty"`     // ConsumePartitions
	Initial []TopicSpec        `json:"initial"`
	Steps   []Step             `json:"steps"`

	MetaMaxAgeMs   int     `json:"metadata_max_age_ms"`
	MetaMinAgeMs   int     `json:"metadata_min_age_ms"`
	MissingDelMs   int     `json:"missing_topic_delete_ms"`
	PollRecordsMax int     `json:"poll_records_max"`
	BgRecords      int     `json:"background_records"`
	Burst          int     `json:"burst_per_partition"`
	NoSessions     bool    `json:"disable_fetch_sessions"`
	MetaKillP      float64 `json:"metadata_kill_p"`
	FetchDelayP    float64 `json:"fetch_delay_p"`
	Yield          int     `json:"yield_level"`
}

// ---------------------------------------------------------------- reference model of the selection

// tsel is the selection state of one topic for a non-regex consumer.
//
//	Whole: the topic was named (ConsumeTopics / AddConsumeTopics): every
//	  partition, present or future, is selected.
//	pinned only (neither Whole nor Ambig): exactly Pinned is selected; Soft are
//	  pins made before the partition existed (allowed, not required: open case).
//	Ambig: the topic was Whole and then RemoveConsumePartitions removed some
//	  (not all) partitions, or AddConsumePartitions pinned into it. The docs do
//	  not say whether the rest of the topic (in particular partitions the client
//	  has not discovered yet) stays selected: every partition except Removed is
//	  allowed; only Pinned and the partitions the consumer had already been
//	  observed consuming (Obs) are required.
type tsel struct {
	Whole   bool           `json:"whole,omitempty"`
	Ambig   bool           `json:"ambig,omitempty"`
	Pinned  map[int32]bool `json:"pinned,omitempty"`
	Soft    map[int32]bool `json:"soft,omitempty"`
	Removed map[int32]bool `json:"removed,omitempty"`
	Obs     map[int32]bool `json:"obs,omitempty"`
}

func cpSet(m map[int32]bool) map[int32]bool {
	if m == nil {
		return nil
	}
	o := make(map[int32]bool, len(m))
	for k, v := range m {
		o[k] = v
	}
	return o
}

func (s *tsel) clone() *tsel {
	return &tsel{Whole: s.Whole, Ambig: s.Ambig, Pinned: cpSet(s.Pinned), Soft: cpSet(s.Soft), Removed: cpSet(s.Removed), Obs: cpSet(s.Obs)}
}

// state is the selection after one history entry took effect. It is "possibly
// in effect" from the moment that entry's call started (Call) until the next
// entry's call returned.
type state struct {
	Op     string           `json:"op"`
	Call   int64            `json:"call"`
	Ret    int64            `json:"ret"`
	Topics map[string]*tsel `json:"topics,omitempty"`
}

type model struct {
	regex    bool
	inc, exc []func(string) bool
	internal map[string]bool
	cur      map[string]*tsel
	states   []*state
	dontcare map[string]int
	// lastDrop[t] is the clock at which the latest RemoveConsumePartitions / purge
	// naming t returned: only polls started after it prove that the client is
	// (again) consuming a partition of t.
	lastDrop map[string]int64
}

func newModel(p *Plan) *model {
	m := &model{regex: p.Mode == "regex", internal: map[string]bool{}, cur: map[string]*tsel{}, dontcare: map[string]int{}, lastDrop: map[string]int64{}}
	if m.regex {
		for _, re := range p.Include {
			m.inc = append(m.inc, lookup(includeTable, re))
		}
		for _, re := range p.Exclude {
			m.exc = append(m.exc, lookup(excludeTable, re))
		}
	} else {
		for _, t := range p.Include {
			m.cur[t] = &tsel{Whole: true}
		}
		exists := map[string]int{}
		for _, ts := range p.Initial {
			exists[ts.Name] = ts.Parts
		}
		for t, ps := range p.Pin {
			s := &tsel{Pinned: map[int32]bool{}, Soft: map[int32]bool{}}
			for _, q := range ps {
				if int(q) < exists[t] {
					s.Pinned[q] = true
				} else {
					s.Soft[q] = true
					m.dontcare["pin-of-partition-that-does-not-exist-yet"]++
				}
			}
			m.cur[t] = s
		}
	}
	for _, ts := range p.Initial {
		m.internal[ts.Name] = ts.Internal
	}
	m.snap("config", 0, 0)
	return m
}

func (m *model) snap(op string, call, ret int64) {
	st := &state{Op: op, Call: call, Ret: ret, Topics: map[string]*tsel{}}
	for t, s := range m.cur {
		st.Topics[t] = s.clone()
	}
	m.states = append(m.states, st)
}

func (m *model) reMatch(t string) (inc, exc bool) {
	for _, f := range m.inc {
		if f(t) {
			inc = true
		}
	}
	for _, f := range m.exc {
		if f(t) {
			exc = true
		}
	}
	return
}

// may: records of (t,p) are allowed to be returned while st is in effect.
func (m *model) may(st *state, t string, p int32) bool {
	if m.regex {
		inc, exc := m.reMatch(t)
		return inc && !exc && !m.internal[t]
	}
	s := st.Topics[t]
	switch {
	case s == nil:
		return false
	case s.Whole:
		return true
	case s.Ambig:
		return !s.Removed[p]
	}
	return s.Pinned[p] || s.Soft[p]
}

// must: (t,p) has to be consumed completely if st is the final state.
func (m *model) must(st *state, t string, p int32) bool {
	if m.regex {
		return m.may(st, t, p)
	}
	s := st.Topics[t]
	switch {
	case s == nil:
		return false
	case s.Whole:
		return true
	case s.Ambig:
		return (s.Pinned[p] || s.Obs[p]) && !s.Removed[p]
	}
	return s.Pinned[p]
}

// selectedTopic reports whether the topic as such is selected right now
// (used by the generator and for the history-kind qualifiers).
func (m *model) selectedTopic(t string) bool {
	if m.regex {
		inc, exc := m.reMatch(t)
		return inc && !exc && !m.internal[t]
	}
	return m.cur[t] != nil
}

// apply updates the model for one consumer API call that returned at clock
// ret. nExisting is the number of partitions the topic has on the broker at
// the time of the call; observed(t, since) the partitions of t from which a
// poll that started after clock since and had returned before the call
// delivered records (so the client was consuming them when the call was made).
// It returns whether the selection changed.
func (m *model) apply(st Step, ret int64, nExisting func(string) int, observed func(t string, since int64) map[int32]bool) (changed bool) {
	defer func() {
		switch st.Kind {
		case "remove-partitions":
			m.lastDrop[st.Topic] = ret
		case "purge-consuming", "purge-client":
			for _, t := range st.Topics {
				m.lastDrop[t] = ret
			}
		}
	}()
	if m.regex {
		// AddConsumeTopics is documented as a no-op with ConsumeRegex, Add/RemoveConsumePartitions
		// "work only for direct, non-regex consumers"; a purged topic that still exists "will be
		// re-discovered": the selection never changes.
		switch st.Kind {
		case "purge-consuming", "purge-client":
			for _, t := range st.Topics {
				if m.selectedTopic(t) {
					m.dontcare["regex-purge-records-after-rediscovery-not-judged"]++
					changed = true // the topic is dropped and re-added by the client
				}
			}
		}
		return changed
	}
	switch st.Kind {
	case "add-topics":
		for _, t := range st.Topics {
			s := m.cur[t]
			switch {
			case s == nil:
				m.cur[t] = &tsel{Whole: true}
				changed = true
			case s.Whole:
			case s.Ambig:
				// open: may or may not bring removed partitions back
				if len(s.Removed) > 0 {
					m.dontcare["add-topics-after-partial-remove"]++
					s.Removed = map[int32]bool{}
					changed = true
				}
			default:
				// documented: does not add the rest of the partitions of a pinned topic
			}
		}
	case "add-partitions":
		t := st.Topic
		s := m.cur[t]
		if s == nil {
			s = &tsel{}
			m.cur[t] = s
		}
		if s.Whole {
			s.Whole, s.Ambig = false, true
			s.Obs = observed(t, m.lastDrop[t])
			m.dontcare["add-partitions-into-whole-topic"]++
		}
		if s.Pinned == nil {
			s.Pinned = map[int32]bool{}
		}
		if s.Soft == nil {
			s.Soft = map[int32]bool{}
		}
		for _, p := range st.Parts {
			if !s.Pinned[p] && !s.Soft[p] {
				changed = true
			}
			if int(p) < nExisting(t) {
				s.Pinned[p] = true
				delete(s.Soft, p)
			} else if !s.Pinned[p] {
				s.Soft[p] = true
				m.dontcare["pin-of-partition-that-does-not-exist-yet"]++
			}
			if s.Removed[p] {
				delete(s.Removed, p)
				changed = true
			}
		}
	case "remove-partitions":
		t := st.Topic
		s := m.cur[t]
		if s == nil {
			return false
		}
		changed = true
		rm := map[int32]bool{}
		for _, p := range st.Parts {
			rm[p] = true
		}
		switch {
		case s.Whole:
			all := true
			for p := 0; p < nExisting(t); p++ {
				if !rm[int32(p)] {
					all = false
				}
			}
			if all && nExisting(t) > 0 {
				// documented: "removes all partitions for a topic => the topic will no longer be consumed"
				delete(m.cur, t)
				break
			}
			m.dontcare["partial-remove-from-whole-topic"]++
			s.Whole, s.Ambig = false, true
			s.Removed = rm
			s.Obs = observed(t, m.lastDrop[t])
			for p := range rm {
				delete(s.Obs, p)
			}
		case s.Ambig:
			for p := range rm {
				if s.Removed == nil {
					s.Removed = map[int32]bool{}
				}
				s.Removed[p] = true
				delete(s.Pinned, p)
				delete(s.Soft, p)
				delete(s.Obs, p)
			}
		default:
			for p := range rm {
				delete(s.Pinned, p)
				delete(s.Soft, p)
			}
			if len(s.Pinned)+len(s.Soft) == 0 {
				delete(m.cur, t)
			}
		}
	case "purge-consuming", "purge-client":
		for _, t := range st.Topics {
			if m.cur[t] != nil {
				delete(m.cur, t)
				changed = true
			}
		}
	}
	return changed
}

// ---------------------------------------------------------------- generator

type gtopic struct {
	parts    int
	internal bool
	deleted  bool
}

type gen struct {
	rng    *rand.Rand
	p      *Plan
	m      *model
	world  map[string]*gtopic
	names  []string // creation order
	next   int
	future []string // named in the configuration, not created yet
}

var fams = []string{"aa", "ab", "bb", "cc"}

func (g *gen) newName(fam string, x, internal bool) string {
	n := fmt.Sprintf("%s-%d", fam, g.next)
	g.next++
	if x {
		n += "-x"
	}
	if internal {
		n += "-int"
	}
	return n
}

func (g *gen) randName(internal bool) string {
	return g.newName(fams[g.rng.IntN(len(fams))], g.rng.IntN(4) == 0, internal)
}

func (g *gen) live() []string {
	var out []string
	for _, n := range g.names {
		if !g.world[n].deleted {
			out = append(out, n)
		}
	}
	return out
}

func pick[T any](rng *rand.Rand, s []T) T { return s[rng.IntN(len(s))] }

func subset(rng *rand.Rand, n int, atLeast int) []int32 {
	var out []int32
	for i := 0; i < n; i++ {
		if rng.IntN(2) == 0 {
			out = append(out, int32(i))
		}
	}
	for len(out) < atLeast && len(out) < n {
		q := int32(rng.IntN(n))
		dup := false
		for _, x := range out {
			if x == q {
				dup = true
			}
		}
		if !dup {
			out = append(out, q)
		}
	}
	sort.Slice(out, func(i, j int) bool { return out[i] < out[j] })
	return out
}

// preferSelected picks a live topic, selected ones with probability 3/4.
func (g *gen) preferSelected(wantSelected bool) (string, bool) {
	live := g.live()
	if len(live) == 0 {
		return "", false
	}
	var sel, unsel []string
	for _, n := range live {
		if g.m.selectedTopic(n) {
			sel = append(sel, n)
		} else {
			unsel = append(unsel, n)
		}
	}
	a, b := sel, unsel
	if !wantSelected {
		a, b = unsel, sel
	}
	if len(a) > 0 && (len(b) == 0 || g.rng.IntN(4) != 0) {
		return pick(g.rng, a), true
	}
	return pick(g.rng, b), true
}

func GenPlan(rng *rand.Rand, seed uint64, vt bool) Plan {
	p := Plan{Seed: seed, VT: vt, Brokers: 1 + rng.IntN(3)}
	switch x := rng.IntN(20); {
	case x < 6:
		p.Mode = "topics"
	case x < 14:
		p.Mode = "regex"
	case x < 17:
		p.Mode = "partitions"
	default:
		p.Mode = "mixed"
	}
	p.MetaMinAgeMs = []int{10, 20, 50}[rng.IntN(3)]
	p.MetaMaxAgeMs = []int{100, 150, 250, 400}[rng.IntN(4)]
	if vt {
		p.MetaMaxAgeMs = []int{100, 250, 500, 1000}[rng.IntN(4)]
	}
	p.MissingDelMs = []int{15000, 1000, 300}[rng.IntN(3)]
	if rng.IntN(2) == 0 {
		p.PollRecordsMax = 1 + rng.IntN(8)
	}
	p.BgRecords = 100 + rng.IntN(300)
	p.Burst = 1 + rng.IntN(3)
	p.NoSessions = rng.IntN(4) == 0
	p.MetaKillP = []float64{0, 0, 0.1, 0.25}[rng.IntN(4)]
	p.FetchDelayP = []float64{0, 0, 0.05}[rng.IntN(3)]
	p.Yield = []int{0, 0, 10, 30}[rng.IntN(4)]

	g := &gen{rng: rng, p: &p, world: map[string]*gtopic{}}
	// initial topics
	nInit := 2 + rng.IntN(3)
	for i := 0; i < nInit; i++ {
		internal := rng.IntN(6) == 0
		fam := fams[rng.IntN(3)] // aa ab bb: the families the patterns talk about
		ts := TopicSpec{Name: g.newName(fam, rng.IntN(4) == 0, internal), Parts: 1 + rng.IntN(3), Internal: internal}
		p.Initial = append(p.Initial, ts)
		g.world[ts.Name] = &gtopic{parts: ts.Parts, internal: internal}
		g.names = append(g.names, ts.Name)
	}
	// selection
	switch p.Mode {
	case "regex":
		for try := 0; try < 8; try++ {
			p.Include = []string{pick(rng, includeTable).Re}
			if rng.IntN(3) == 0 {
				if o := pick(rng, includeTable).Re; o != p.Include[0] {
					p.Include = append(p.Include, o)
				}
			}
			p.Exclude = nil
			for k := rng.IntN(3); k > 0; k-- {
				o := pick(rng, excludeTable).Re
				dup := false
				for _, e := range p.Exclude {
					dup = dup || e == o
				}
				if !dup {
					p.Exclude = append(p.Exclude, o)
				}
			}
			tm := newModel(&p)
			any := false
			for _, n := range g.names {
				any = any || tm.selectedTopic(n)
			}
			if any {
				break
			}
		}
	default:
		// which initial topics are named as a whole, which are pinned
		for _, ts := range p.Initial {
			var how int // 0 none 1 whole 2 pin
			switch p.Mode {
			case "topics":
				how = []int{1, 1, 1, 0}[rng.IntN(4)]
			case "partitions":
				how = []int{2, 2, 2, 0}[rng.IntN(4)]
			default:
				how = rng.IntN(3)
			}
			switch how {
			case 1:
				p.Include = append(p.Include, ts.Name)
			case 2:
				if p.Pin == nil {
					p.Pin = map[string][]int32{}
				}
				ps := subset(rng, ts.Parts, 1)
				if rng.IntN(8) == 0 {
					ps = append(ps, int32(ts.Parts)) // does not exist yet: open case
				}
				p.Pin[ts.Name] = ps
			}
		}
		if p.Mode != "partitions" {
			for k := rng.IntN(3); k > 0; k-- { // named now, created later (or never)
				n := g.randName(rng.IntN(8) == 0)
				g.future = append(g.future, n)
				p.Include = append(p.Include, n)
			}
		}
		if len(p.Include) == 0 && len(p.Pin) == 0 {
			ts := p.Initial[0]
			if p.Mode == "partitions" {
				p.Pin = map[string][]int32{ts.Name: subset(rng, ts.Parts, 1)}
			} else {
				p.Include = append(p.Include, ts.Name)
			}
		}
	}
	g.m = newModel(&p)
	for _, n := range g.future {
		g.m.internal[n] = strings.HasSuffix(n, "-int")
	}

	nSteps := 4 + rng.IntN(6)
	for len(p.Steps) < nSteps {
		st, ok := g.step()
		if !ok {
			continue
		}
		st.SleepMs = []int{0, 2, 10, 30, 80, p.MetaMaxAgeMs + 20}[rng.IntN(6)]
		p.Steps = append(p.Steps, st)
		// keep the generator's model in step (observed sets are irrelevant for target choice)
		g.m.apply(st, 0, func(t string) int {
			if w := g.world[t]; w != nil && !w.deleted {
				return w.parts
			}
			return 0
		}, func(string, int64) map[int32]bool { return map[int32]bool{} })
	}
	return p
}

func (g *gen) step() (Step, bool) {
	rng := g.rng
	regex := g.p.Mode == "regex"
	type wk struct {
		k string
		w int
	}
	ws := []wk{{"create-topic", 20}, {"grow", 20}, {"delete-topic", 3}, {"purge-consuming", 8}, {"purge-client", 6}}
	if regex {
		ws = append(ws, wk{"add-topics", 4}, wk{"add-partitions", 3}, wk{"remove-partitions", 5})
	} else {
		ws = append(ws, wk{"add-topics", 13}, wk{"add-partitions", 12}, wk{"remove-partitions", 18})
	}
	tot := 0
	for _, w := range ws {
		tot += w.w
	}
	x := rng.IntN(tot)
	kind := ""
	for _, w := range ws {
		if x < w.w {
			kind = w.k
			break
		}
		x -= w.w
	}
	switch kind {
	case "create-topic":
		if len(g.names) >= 9 {
			return Step{}, false
		}
		var name string
		internal := false
		if len(g.future) > 0 && rng.IntN(2) == 0 {
			name = g.future[0]
			g.future = g.future[1:]
			internal = strings.HasSuffix(name, "-int")
		} else {
			internal = rng.IntN(5) == 0
			fam := fams[rng.IntN(len(fams))]
			if regex && rng.IntN(3) != 0 {
				fam = fams[rng.IntN(3)]
			}
			name = g.newName(fam, rng.IntN(4) == 0, internal)
		}
		n := 1 + rng.IntN(3)
		g.world[name] = &gtopic{parts: n, internal: internal}
		g.names = append(g.names, name)
		g.m.internal[name] = internal
		return Step{Kind: kind, Topic: name, N: n, Internal: internal}, true
	case "grow":
		t, ok := g.preferSelected(true)
		if !ok || g.world[t].parts >= 6 {
			return Step{}, false
		}
		n := 1 + rng.IntN(2)
		g.world[t].parts += n
		return Step{Kind: kind, Topic: t, N: n}, true
	case "delete-topic":
		t, ok := g.preferSelected(rng.IntN(2) == 0)
		if !ok || len(g.live()) <= 2 {
			return Step{}, false
		}
		g.world[t].deleted = true
		return Step{Kind: kind, Topic: t}, true
	case "purge-consuming", "purge-client":
		t, ok := g.preferSelected(true)
		if !ok {
			return Step{}, false
		}
		ts := []string{t}
		if rng.IntN(4) == 0 {
			if o, _ := g.preferSelected(true); o != t {
				ts = append(ts, o)
			}
		}
		return Step{Kind: kind, Topics: ts}, true
	case "add-topics":
		var ts []string
		for k := 1 + rng.IntN(2); k > 0; k-- {
			var t string
			switch y := rng.IntN(10); {
			case y < 6: // an existing topic that is not selected right now (purged earlier, never named, ...)
				t, _ = g.preferSelected(false)
			case y < 8 && len(g.names) < 9: // a topic that does not exist yet
				t = g.randName(rng.IntN(8) == 0)
				g.future = append(g.future, t)
				g.m.internal[t] = strings.HasSuffix(t, "-int")
			default:
				t, _ = g.preferSelected(true)
			}
			dup := t == ""
			for _, o := range ts {
				dup = dup || o == t
			}
			if !dup {
				ts = append(ts, t)
			}
		}
		if len(ts) == 0 {
			return Step{}, false
		}
		return Step{Kind: kind, Topics: ts}, true
	case "add-partitions":
		t, ok := g.preferSelected(rng.IntN(2) == 0)
		if !ok {
			return Step{}, false
		}
		ps := subset(rng, g.world[t].parts, 1)
		if rng.IntN(10) == 0 {
			ps = append(ps, int32(g.world[t].parts)) // not existing yet: open case
		}
		return Step{Kind: kind, Topic: t, Parts: ps}, true
	case "remove-partitions":
		t, ok := g.preferSelected(true)
		if !ok {
			return Step{}, false
		}
		n := g.world[t].parts
		var ps []int32
		if rng.IntN(3) == 0 {
			for i := 0; i < n; i++ {
				ps = append(ps, int32(i))
			}
		} else {
			ps = subset(rng, n, 1)
		}
		return Step{Kind: kind, Topic: t, Parts: ps}, true
	}
	return Step{}, false
}
