package c39

import (
	"bytes"
	"context"
	"errors"
	"fmt"
	"math/rand/v2"
	"sort"
	"sync"
	"sync/atomic"
	"time"

	"github.com/twmb/franz-go/pkg/kadm"
	"github.com/twmb/franz-go/pkg/kgo"

	"verifharness/internal/e2e"
	"verifharness/internal/faultnet"
)

type tp struct {
	T string
	P int32
}

func (k tp) String() string { return fmt.Sprintf("%s/%d", k.T, k.P) }

type rec struct {
	T  string `json:"t"`
	P  int32  `json:"p"`
	O  int64  `json:"o"`
	ID string `json:"id"`
}

// pollLog is one PollFetches / PollRecords call: S is the logical clock taken
// just before the call, E just after it returned.
type pollLog struct {
	S, E int64
	Kind string
	Recs []rec
}

type opLog struct {
	Step     Step   `json:"step"`
	Call     int64  `json:"call"`
	Ret      int64  `json:"ret"`
	Qual     string `json:"kind_qualified"`
	Changed  bool   `json:"selection_changed"`
	Existing int    `json:"partitions_existing"`
}

type wtopic struct {
	parts     int
	initParts int
	internal  bool
	deleted   bool
	later     bool // created by a history step
	purged    bool
}

type Result struct {
	Plan      Plan
	Ops       []opLog
	States    []*state
	Polls     []pollLog
	Logs      map[tp]map[int64]string // offset -> record id, per existing partition
	Topics    map[string]*wtopic
	Model     *model
	Inconcl   []string
	Complete  bool
	Missing   []string
	FinalClk  int64
	Fired     map[string]int64
	FetchErrs []string
	Stacks    string
	Produced  int
}

func idOf(v []byte) string {
	if i := bytes.IndexByte(v, '|'); i > 0 {
		return string(v[:i])
	}
	return ""
}

// world is the broker-side truth the harness keeps. It is guarded by a
// channel lock: inside a synctest bubble a goroutine blocked on a sync mutex is
// not durably blocked, so a holder sleeping in virtual time would deadlock the
// bubble.
type world struct {
	clock atomic.Int64
	mu    chanLock
	t     map[string]*wtopic
	names []string
}

type chanLock chan struct{}

func (l chanLock) Lock()   { l <- struct{}{} }
func (l chanLock) Unlock() { <-l }

func (w *world) tick() int64 { return w.clock.Add(1) }

// livePartitions lists every partition of every existing topic (caller holds mu).
func (w *world) livePartitions() []tp {
	var out []tp
	for _, n := range w.names {
		wt := w.t[n]
		if wt.deleted {
			continue
		}
		for p := 0; p < wt.parts; p++ {
			out = append(out, tp{n, int32(p)})
		}
	}
	return out
}

func Run(plan Plan, watchdog, liveBound time.Duration) (res *Result) {
	res = &Result{Plan: plan, Logs: map[tp]map[int64]string{}}
	w := &world{t: map[string]*wtopic{}, mu: make(chanLock, 1)}
	res.Topics = w.t
	inconcl := func(f string, a ...any) { res.Inconcl = append(res.Inconcl, fmt.Sprintf(f, a...)) }
	deadline := time.Now().Add(watchdog)
	bg := context.Background()

	// ---------------- broker + faults on the consumer under test only
	frng := rand.New(rand.NewPCG(plan.Seed, 7))
	var fmu sync.Mutex
	var faultsOn atomic.Bool
	faultsOn.Store(true)
	fnet := &faultnet.Net{}
	fnet.Decide = func(r *faultnet.Req) faultnet.Action {
		if !faultsOn.Load() || r.ClientID != "vcons" {
			return faultnet.Action{}
		}
		fmu.Lock()
		defer fmu.Unlock()
		x := frng.Float64()
		switch r.Key {
		case 3:
			if x < plan.MetaKillP {
				return faultnet.Action{Kind: []faultnet.Kind{faultnet.KillBefore, faultnet.KillAfter}[frng.IntN(2)]}
			}
		case 1:
			if x < plan.FetchDelayP {
				return faultnet.Action{Kind: faultnet.Delay, D: time.Duration(1+frng.IntN(20)) * time.Millisecond}
			}
		}
		return faultnet.Action{}
	}
	env, err := e2e.NewEnv(plan.VT, plan.Brokers, fnet)
	if err != nil {
		inconcl("kfake: %v", err)
		return res
	}
	defer env.Close()
	defer func() { res.Fired = fnet.Fired() }()

	if plan.Yield > 0 {
		e2e.NewYield(plan.Seed, plan.Yield, plan.VT).Install()
		defer e2e.Uninstall()
	}

	admin, err := env.NewClient(kgo.ClientID("vadmin"))
	if err != nil {
		inconcl("admin client: %v", err)
		return res
	}
	defer admin.Close()
	adm := kadm.NewClient(admin)
	opCtx := func() (context.Context, context.CancelFunc) { return context.WithDeadline(bg, deadline) }

	createTopic := func(name string, parts int, internal bool) error {
		var cfgs map[string]*string
		if internal {
			v := "true"
			cfgs = map[string]*string{"kfake.is_internal": &v}
		}
		ctx, cancel := opCtx()
		defer cancel()
		_, err := adm.CreateTopic(ctx, int32(parts), 1, cfgs, name)
		return err
	}
	for _, ts := range plan.Initial {
		if err := createTopic(ts.Name, ts.Parts, ts.Internal); err != nil {
			inconcl("create initial topic %s: %v", ts.Name, err)
			return res
		}
		w.t[ts.Name] = &wtopic{parts: ts.Parts, initParts: ts.Parts, internal: ts.Internal}
		w.names = append(w.names, ts.Name)
	}

	// ---------------- producers: every partition of every topic keeps receiving uniquely identified records
	prod, err := env.NewClient(kgo.ClientID("vprod"), kgo.RecordPartitioner(kgo.ManualPartitioner()),
		kgo.MetadataMaxAge(100*time.Millisecond), kgo.MetadataMinAge(10*time.Millisecond),
		kgo.ProducerBatchCompression(kgo.NoCompression()), kgo.ProducerLinger(0),
		kgo.RecordDeliveryTimeout(5*time.Second), kgo.UnknownTopicRetries(3))
	if err != nil {
		inconcl("producer client: %v", err)
		return res
	}
	defer prod.Close()
	var seq atomic.Int64
	var acked atomic.Int64
	mkRec := func(who int, k tp) *kgo.Record {
		id := e2e.RID(who, int(seq.Add(1)))
		return &kgo.Record{Topic: k.T, Partition: k.P, Value: []byte(id + "|" + k.String())}
	}
	var stopBg atomic.Bool
	var bgWG sync.WaitGroup
	bgWG.Add(1)
	go func() {
		defer bgWG.Done()
		prng := rand.New(rand.NewPCG(plan.Seed, 100))
		for i := 0; i < plan.BgRecords && !stopBg.Load(); i++ {
			w.mu.Lock()
			if lp := w.livePartitions(); len(lp) > 0 {
				prod.Produce(bg, mkRec(1, lp[prng.IntN(len(lp))]), func(_ *kgo.Record, err error) {
					if err == nil {
						acked.Add(1)
					}
				})
			}
			w.mu.Unlock()
			time.Sleep(time.Duration(200+prng.IntN(2500)) * time.Microsecond)
		}
	}()
	// burst: n acknowledged records to each given partition (retrying while the
	// producer has not learned a new topic / partition yet)
	burst := func(parts []tp, n int) bool {
		var todo []*kgo.Record
		for _, k := range parts {
			for i := 0; i < n; i++ {
				todo = append(todo, mkRec(2, k))
			}
		}
		for attempt := 0; len(todo) > 0 && attempt < 400 && time.Now().Before(deadline); attempt++ {
			ctx, cancel := opCtx()
			results := prod.ProduceSync(ctx, todo...)
			cancel()
			var again []*kgo.Record
			for _, pr := range results {
				if pr.Err != nil {
					again = append(again, mkRec(2, tp{pr.Record.Topic, pr.Record.Partition}))
				} else {
					acked.Add(1)
				}
			}
			todo = again
			if len(todo) > 0 {
				prod.ForceMetadataRefresh()
				time.Sleep(10 * time.Millisecond)
			}
		}
		return len(todo) == 0
	}

	// ---------------- the consumer under test
	m := newModel(&plan)
	res.Model = m
	copts := []kgo.Opt{
		kgo.ClientID("vcons"),
		kgo.FetchMaxWait(50 * time.Millisecond),
		kgo.RetryBackoffFn(func(n int) time.Duration { return time.Duration(1+n) * 2 * time.Millisecond }),
		kgo.MetadataMinAge(time.Duration(plan.MetaMinAgeMs) * time.Millisecond),
		kgo.MetadataMaxAge(time.Duration(plan.MetaMaxAgeMs) * time.Millisecond),
		kgo.ConsiderMissingTopicDeletedAfter(time.Duration(plan.MissingDelMs) * time.Millisecond),
		kgo.ConsumeResetOffset(kgo.NewOffset().AtStart()),
	}
	if plan.NoSessions {
		copts = append(copts, kgo.DisableFetchSessions())
	}
	if len(plan.Include) > 0 {
		copts = append(copts, kgo.ConsumeTopics(plan.Include...))
	}
	if plan.Mode == "regex" {
		copts = append(copts, kgo.ConsumeRegex())
		if len(plan.Exclude) > 0 {
			copts = append(copts, kgo.ConsumeExcludeTopics(plan.Exclude...))
		}
	}
	if len(plan.Pin) > 0 {
		pm := map[string]map[int32]kgo.Offset{}
		for t, ps := range plan.Pin {
			pm[t] = map[int32]kgo.Offset{}
			for _, p := range ps {
				pm[t][p] = kgo.NewOffset().AtStart()
			}
		}
		copts = append(copts, kgo.ConsumePartitions(pm))
	}
	cons, err := env.NewClient(copts...)
	if err != nil {
		inconcl("consumer client: %v", err)
		stopBg.Store(true)
		bgWG.Wait()
		return res
	}

	var pmu sync.Mutex
	got := map[tp]map[int64]string{} // returned so far
	var stopCons atomic.Bool
	var consWG sync.WaitGroup
	consCtx, consCancel := context.WithCancel(bg)
	consWG.Add(1)
	go func() {
		defer consWG.Done()
		prng := rand.New(rand.NewPCG(plan.Seed, 51))
		for !stopCons.Load() {
			ctx, cancel := context.WithTimeout(consCtx, 60*time.Millisecond)
			pl := pollLog{Kind: "PollFetches"}
			var fs kgo.Fetches
			if plan.PollRecordsMax > 0 && prng.IntN(3) != 0 {
				n := 1 + prng.IntN(plan.PollRecordsMax)
				pl.Kind = "PollRecords"
				pl.S = w.tick()
				fs = cons.PollRecords(ctx, n)
			} else {
				pl.S = w.tick()
				fs = cons.PollFetches(ctx)
			}
			pl.E = w.tick()
			cancel()
			closed := false
			for _, fe := range fs.Errors() {
				if errors.Is(fe.Err, context.DeadlineExceeded) || errors.Is(fe.Err, context.Canceled) {
					continue
				}
				if errors.Is(fe.Err, kgo.ErrClientClosed) {
					closed = true
					continue
				}
				pmu.Lock()
				if len(res.FetchErrs) < 20 {
					res.FetchErrs = append(res.FetchErrs, fmt.Sprintf("%s/%d: %v", fe.Topic, fe.Partition, fe.Err))
				}
				pmu.Unlock()
			}
			fs.EachRecord(func(r *kgo.Record) {
				pl.Recs = append(pl.Recs, rec{r.Topic, r.Partition, r.Offset, idOf(r.Value)})
			})
			pmu.Lock()
			res.Polls = append(res.Polls, pl)
			for _, r := range pl.Recs {
				k := tp{r.T, r.P}
				if got[k] == nil {
					got[k] = map[int64]string{}
				}
				got[k][r.O] = r.ID
			}
			pmu.Unlock()
			if closed {
				return
			}
			if len(pl.Recs) > 0 && prng.IntN(4) == 0 {
				e2e.Jitter(prng, 800)
			}
		}
	}()
	stopAll := func() {
		stopBg.Store(true)
		bgWG.Wait()
		stopCons.Store(true)
		consCancel()
		consWG.Wait()
		cons.Close()
	}

	// partitions of t delivered by a poll that started after clock since and had returned before clock c
	observedBefore := func(t string, since, c int64) map[int32]bool {
		out := map[int32]bool{}
		pmu.Lock()
		for _, pl := range res.Polls {
			if pl.E >= c || pl.S <= since {
				continue
			}
			for _, r := range pl.Recs {
				if r.T == t {
					out[r.P] = true
				}
			}
		}
		pmu.Unlock()
		return out
	}
	nExisting := func(t string) int {
		if wt := w.t[t]; wt != nil && !wt.deleted {
			return wt.parts
		}
		return 0
	}

	// ---------------- the history
	failed := false
	for _, st := range plan.Steps {
		if !time.Now().Before(deadline) {
			inconcl("watchdog expired during the history")
			failed = true
			break
		}
		time.Sleep(time.Duration(st.SleepMs) * time.Millisecond)
		ol := opLog{Step: st, Qual: st.Kind}
		var newParts []tp
		switch st.Kind {
		case "create-topic":
			m.internal[st.Topic] = st.Internal
			ol.Call = w.tick()
			err = createTopic(st.Topic, st.N, st.Internal)
			ol.Ret = w.tick()
			if err != nil {
				inconcl("create topic %s: %v", st.Topic, err)
				failed = true
				break
			}
			w.mu.Lock()
			w.t[st.Topic] = &wtopic{parts: st.N, initParts: st.N, internal: st.Internal, later: true}
			w.names = append(w.names, st.Topic)
			w.mu.Unlock()
			for p := 0; p < st.N; p++ {
				newParts = append(newParts, tp{st.Topic, int32(p)})
			}
			switch {
			case m.selectedTopic(st.Topic):
				ol.Qual += "+selected"
				ol.Changed = true
			case st.Internal:
				ol.Qual += "+internal"
			default:
				ol.Qual += "+unselected"
			}
		case "grow":
			ctx, cancel := opCtx()
			ol.Call = w.tick()
			rs, err := adm.CreatePartitions(ctx, st.N, st.Topic)
			if err == nil {
				err = rs.Error()
			}
			ol.Ret = w.tick()
			cancel()
			if err != nil {
				inconcl("create partitions %s: %v", st.Topic, err)
				failed = true
				break
			}
			w.mu.Lock()
			wt := w.t[st.Topic]
			for p := wt.parts; p < wt.parts+st.N; p++ {
				newParts = append(newParts, tp{st.Topic, int32(p)})
			}
			wt.parts += st.N
			w.mu.Unlock()
			last := m.states[len(m.states)-1]
			if m.must(last, st.Topic, int32(wt.parts-1)) {
				ol.Qual += "+selected"
				ol.Changed = true
			} else if m.may(last, st.Topic, int32(wt.parts-1)) {
				ol.Qual += "+open"
			} else {
				ol.Qual += "+unselected"
			}
		case "delete-topic":
			w.mu.Lock()
			w.t[st.Topic].deleted = true // producers stop choosing it
			w.mu.Unlock()
			ctx, cancel := opCtx()
			prod.Flush(ctx)
			ol.Call = w.tick()
			_, err = adm.DeleteTopic(ctx, st.Topic)
			ol.Ret = w.tick()
			cancel()
			if err != nil {
				inconcl("delete topic %s: %v", st.Topic, err)
				failed = true
				break
			}
			if m.selectedTopic(st.Topic) {
				ol.Qual += "+selected"
			}
		default: // consumer API calls
			ol.Existing = nExisting(st.Topic)
			ol.Call = w.tick()
			switch st.Kind {
			case "add-topics":
				cons.AddConsumeTopics(st.Topics...)
			case "add-partitions":
				pm := map[int32]kgo.Offset{}
				for _, p := range st.Parts {
					pm[p] = kgo.NewOffset().AtStart()
				}
				cons.AddConsumePartitions(map[string]map[int32]kgo.Offset{st.Topic: pm})
			case "remove-partitions":
				cons.RemoveConsumePartitions(map[string][]int32{st.Topic: append([]int32(nil), st.Parts...)})
			case "purge-consuming":
				cons.PurgeTopicsFromConsuming(st.Topics...)
			case "purge-client":
				cons.PurgeTopicsFromClient(st.Topics...)
			}
			ol.Ret = w.tick()
			for _, t := range st.Topics {
				if wt := w.t[t]; wt != nil && (st.Kind == "purge-consuming" || st.Kind == "purge-client") {
					wt.purged = true
				}
			}
			before := len(m.cur)
			ol.Changed = m.apply(st, ol.Ret, nExisting, func(t string, since int64) map[int32]bool { return observedBefore(t, since, ol.Call) })
			if m.regex && st.Kind != "purge-consuming" && st.Kind != "purge-client" {
				ol.Qual += "+noop-in-regex-mode"
			} else if ol.Changed {
				ol.Qual += "+changed"
				if st.Kind == "remove-partitions" {
					if len(m.cur) < before {
						ol.Qual += "-all"
					} else {
						ol.Qual += "-some"
					}
				}
			}
			m.snap(st.Kind, ol.Call, ol.Ret)
		}
		res.Ops = append(res.Ops, ol)
		if failed {
			break
		}
		// every partition that exists now receives more records, new ones first
		w.mu.Lock()
		lp := w.livePartitions()
		w.mu.Unlock()
		if !burst(newParts, plan.Burst) || !burst(lp, 1) {
			inconcl("producer could not deliver a burst before the watchdog")
			failed = true
			break
		}
	}
	res.States = m.states
	if failed {
		res.Stacks = e2e.Stacks()
		stopAll()
		return res
	}

	// ---------------- final round: stop the background producer, one more burst everywhere, read the logs back
	stopBg.Store(true)
	bgWG.Wait()
	{
		ctx, cancel := opCtx()
		prod.Flush(ctx)
		cancel()
	}
	faultsOn.Store(false)
	lp := w.livePartitions()
	if !burst(lp, 2) {
		inconcl("producer could not deliver the final burst before the watchdog")
		stopAll()
		return res
	}
	res.Produced = int(acked.Load())
	res.FinalClk = w.tick()
	for _, k := range lp {
		ctx, cancel := opCtx()
		l, err := e2e.ReadLog(ctx, admin, k.T, k.P)
		cancel()
		if err != nil {
			inconcl("read log %v: %v", k, err)
			stopAll()
			return res
		}
		lm := map[int64]string{}
		for _, r := range l.Records {
			if !r.Control {
				lm[r.Offset] = idOf(r.Value)
			}
		}
		res.Logs[k] = lm
	}

	// ---------------- eventually: every partition selected in the final state yields all its records
	final := m.states[len(m.states)-1]
	var must []tp
	for _, k := range lp {
		if m.must(final, k.T, k.P) {
			must = append(must, k)
		}
	}
	missing := func() []string {
		var out []string
		pmu.Lock()
		defer pmu.Unlock()
		for _, k := range must {
			n := 0
			for o := range res.Logs[k] {
				if _, ok := got[k][o]; !ok {
					n++
				}
			}
			if n > 0 {
				out = append(out, fmt.Sprintf("%v: %d of %d records not returned", k, n, len(res.Logs[k])))
			}
		}
		sort.Strings(out)
		return out
	}
	// quiet: long enough for the client to have discovered (and leaked) anything it is going to
	quiet := time.Duration(3*plan.MetaMaxAgeMs+200) * time.Millisecond
	start := time.Now()
	liveDeadline := start.Add(liveBound)
	if liveDeadline.After(deadline) {
		liveDeadline = deadline
	}
	for {
		res.Missing = missing()
		if len(res.Missing) == 0 && time.Since(start) >= quiet {
			res.Complete = true
			break
		}
		if !time.Now().Before(liveDeadline) {
			break
		}
		time.Sleep(20 * time.Millisecond)
	}
	if !res.Complete {
		res.Stacks = e2e.Stacks()
	}
	stopAll()
	return res
}
