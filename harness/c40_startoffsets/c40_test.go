// C40 — start offsets resolve as documented.
//
// One case = one kfake cluster with one partition log of a known shape
// (multi-record batches with chosen timestamps, committed / aborted
// transactions with their control markers, an optional OPEN transaction so
// that LSO < HWM, plain records behind it, log start moved by DeleteRecords -
// also into the middle of a batch), read back independently with raw Fetch
// (e2e.ReadLog) as ground truth, and one consumer under test started with an
// Offset drawn from At / At.Relative / AtStart(.Relative) / AtEnd(.Relative) /
// AfterMilli / AtCommitted (+WithEpoch) through ConsumePartitions,
// ConsumeTopics+ConsumeResetOffset / ConsumeStartOffset or a ConsumerGroup
// (with and without a committed offset).
//
// Observed: (a) every FetchOffset the broker side of the wire receives for
// that partition from the consumer under test (faultnet tap filtered by
// client id) and (b) the first record PollFetches returns, after the open
// transaction was ended and a sentinel record appended (both only after the
// resolved fetch position was seen, so the resolution itself never races the
// log change).
//
// Oracle: the documented rules (Offset doc comments, ConsumeStartOffset /
// ConsumeResetOffset docs) = the property statement's formulas, evaluated on
// the read-back log.
package c40

import (
	"context"
	"fmt"
	"math/rand/v2"
	"sort"
	"sync"
	"sync/atomic"
	"testing"
	"time"

	"github.com/twmb/franz-go/pkg/kadm"
	"github.com/twmb/franz-go/pkg/kerr"
	"github.com/twmb/franz-go/pkg/kfake"
	"github.com/twmb/franz-go/pkg/kgo"
	"github.com/twmb/franz-go/pkg/kmsg"

	"verifharness/internal/e2e"
	"verifharness/internal/faultnet"
	"verifharness/internal/vh"
)

const (
	topic    = "c40"
	cutID    = "c40-cut"
	group    = "c40-group"
	watchdog = 40 * time.Second
)

// ---------------------------------------------------------------- plan

type chunk struct {
	Kind string  `json:"kind"` // plain | commit | abort | open
	TS   []int64 `json:"ts"`
}

type offSpec struct {
	Kind     string `json:"kind"` // at | at-rel | start | start-rel | end | end-rel | milli | committed
	X        int64  `json:"x,omitempty"`
	R        int64  `json:"r,omitempty"`
	T        int64  `json:"t,omitempty"`
	Epoch    bool   `json:"with_epoch,omitempty"`
	RelFirst bool   `json:"relative_before_at,omitempty"`
}

func (o offSpec) String() string {
	s := ""
	switch o.Kind {
	case "at":
		s = fmt.Sprintf("At(%d)", o.X)
	case "at-rel":
		s = fmt.Sprintf("At(%d).Relative(%d)", o.X, o.R)
	case "start":
		s = "AtStart()"
	case "start-rel":
		s = fmt.Sprintf("AtStart().Relative(%d)", o.R)
	case "end":
		s = "AtEnd()"
	case "end-rel":
		s = fmt.Sprintf("AtEnd().Relative(%d)", o.R)
	case "milli":
		s = fmt.Sprintf("AfterMilli(%d)", o.T)
	case "committed":
		s = "AtCommitted()"
	}
	if o.Epoch {
		s += ".WithEpoch(cur)"
	}
	return s
}

func (o offSpec) build(epoch int32) kgo.Offset {
	b := kgo.NewOffset()
	switch o.Kind {
	case "at":
		b = b.At(o.X)
	case "at-rel":
		if o.RelFirst {
			b = b.Relative(o.R).At(o.X)
		} else {
			b = b.At(o.X).Relative(o.R)
		}
	case "start":
		b = b.AtStart()
	case "start-rel":
		if o.RelFirst {
			b = b.Relative(o.R).AtStart()
		} else {
			b = b.AtStart().Relative(o.R)
		}
	case "end":
		b = b.AtEnd()
	case "end-rel":
		if o.RelFirst {
			b = b.Relative(o.R).AtEnd()
		} else {
			b = b.AtEnd().Relative(o.R)
		}
	case "milli":
		b = b.AfterMilli(o.T)
	case "committed":
		b = b.AtCommitted()
	}
	if o.Epoch {
		b = b.WithEpoch(epoch)
	}
	return b
}

type plan struct {
	Idx       int     `json:"idx"`
	Brokers   int     `json:"brokers"`
	Parts     int     `json:"partitions"`
	Part      int32   `json:"partition"`
	RC        bool    `json:"read_committed"`
	Chunks    []chunk `json:"chunks"`
	DelTo     int64   `json:"delete_records_to"`
	EndCommit bool    `json:"open_txn_ends_with_commit"`
	Mode      string  `json:"mode"` // parts | parts+reset | topics+reset | topics+start | group
	Off       offSpec `json:"offset"`
	HasCommit bool    `json:"group_has_commit,omitempty"`
	Commit    int64   `json:"group_committed_offset,omitempty"`
	CommitEp  bool    `json:"group_commit_with_epoch,omitempty"`
	// ListErr: the first ListErrN ListOffsets answers to the consumer under test that are a
	// pure start listing (timestamp -2), a pure end listing (-1), or any listing, carry a
	// retriable partition error and offset -1 (what a broker answers right after a leader
	// election). The documented position is unchanged: the client must retry, not use -1.
	ListErr  string `json:"list_offsets_error_on,omitempty"` // "" | start | end | any
	ListErrN int    `json:"list_offsets_error_count,omitempty"`
}

func genLog(rng *rand.Rand, p *plan) {
	p.Brokers = 1 + rng.IntN(2)
	p.Parts = 1 + rng.IntN(3)
	p.Part = int32(rng.IntN(p.Parts))
	p.RC = rng.IntN(2) == 0
	withTxn := rng.IntN(2) == 0
	single := rng.IntN(4) == 0 // every record its own batch
	tsMode := rng.IntN(4)      // 0,1 non-decreasing (with duplicates) / 2 out of order / 3 non-decreasing far in the future
	base := int64(1_000_000)
	if tsMode == 3 {
		base = 4_000_000_000_000
	}
	cur := base
	nextTS := func() int64 {
		switch tsMode {
		case 2:
			return base + int64(rng.IntN(120))
		default:
			cur += []int64{0, 0, 1, 1, 3, 7, 10, 25}[rng.IntN(8)]
			return cur
		}
	}
	mk := func(kind string) chunk {
		n := 1 + rng.IntN(4)
		if single {
			n = 1
		}
		c := chunk{Kind: kind}
		for i := 0; i < n; i++ {
			c.TS = append(c.TS, nextTS())
		}
		return c
	}
	n := rng.IntN(7)
	if n == 0 && rng.IntN(3) != 0 {
		n = 1
	}
	for i := 0; i < n; i++ {
		kind := "plain"
		if withTxn {
			switch rng.IntN(5) {
			case 0, 1:
				kind = "commit"
			case 2:
				kind = "abort"
			}
		}
		p.Chunks = append(p.Chunks, mk(kind))
	}
	// predicted offsets (only used to choose the DeleteRecords target)
	var hwm int64
	for _, c := range p.Chunks {
		hwm += int64(len(c.TS))
		if c.Kind != "plain" {
			hwm++
		}
	}
	lso := hwm
	if rng.IntN(100) < 45 {
		p.Chunks = append(p.Chunks, mk("open"))
		for k := rng.IntN(3); k > 0; k-- {
			p.Chunks = append(p.Chunks, mk("plain"))
		}
	}
	p.EndCommit = rng.IntN(2) == 0
	if lso > 0 && rng.IntN(100) < 60 {
		if rng.IntN(8) == 0 {
			p.DelTo = lso
		} else {
			p.DelTo = 1 + rng.Int64N(lso)
		}
	}
	switch x := rng.IntN(100); {
	case x < 28:
		p.Mode = "parts"
	case x < 45:
		p.Mode = "parts+reset"
	case x < 65:
		p.Mode = "topics+reset"
	case x < 75:
		p.Mode = "topics+start"
	default:
		p.Mode = "group"
	}
}

// ground truth of the log as the case sees it
type truth struct {
	S, H, L, E int64 // log start, high watermark, last stable offset, "end" for the isolation level
	Recs       []e2e.LogRecord
}

func genOffset(rng *rand.Rand, p *plan, g *truth) {
	S, H, E := g.S, g.H, g.E
	pickX := func() int64 {
		switch rng.IntN(10) {
		case 0, 1:
			if S > 0 {
				return rng.Int64N(S)
			}
			return S
		case 2:
			return S
		case 3:
			return E
		case 4:
			return H + 1 + rng.Int64N(5)
		case 5:
			return H
		default:
			return S + rng.Int64N(H-S+1)
		}
	}
	o := offSpec{}
	x := rng.IntN(100)
	if p.Mode == "group" {
		x = rng.IntN(125)
	}
	switch {
	case x < 14:
		o.Kind = "at"
		o.X = pickX()
		if rng.IntN(12) == 0 {
			o.X = []int64{-1, -2, -7}[rng.IntN(3)]
		}
	case x < 36:
		o.Kind = "at-rel"
		o.X = pickX()
		lo, hi := S-o.X-3, H-o.X+3
		o.R = lo + rng.Int64N(hi-lo+1)
	case x < 40:
		o.Kind = "start"
	case x < 56:
		o.Kind = "start-rel"
		o.R = -3 + rng.Int64N(E-S+7)
	case x < 60:
		o.Kind = "end"
	case x < 76:
		o.Kind = "end-rel"
		o.R = -(E - S) - 3 + rng.Int64N(E-S+7)
	case x < 98:
		o.Kind = "milli"
		var tss []int64
		for _, r := range g.Recs {
			tss = append(tss, r.Timestamp)
		}
		if len(tss) == 0 {
			o.T = int64(rng.IntN(2_000_000))
			break
		}
		sorted := append([]int64(nil), tss...)
		sort.Slice(sorted, func(i, j int) bool { return sorted[i] < sorted[j] })
		switch rng.IntN(8) {
		case 0:
			o.T = sorted[0] - 1 - int64(rng.IntN(10))
		case 1:
			o.T = sorted[len(sorted)-1] + 1 + int64(rng.IntN(10))
		case 2, 3, 4:
			o.T = tss[rng.IntN(len(tss))]
		case 5:
			o.T = tss[rng.IntN(len(tss))] + 1
		case 6:
			o.T = tss[rng.IntN(len(tss))] - 1
		case 7:
			// after every data record (control markers carry the broker's wall clock)
			var m int64
			for _, r := range g.Recs {
				if !r.Control && r.Timestamp > m {
					m = r.Timestamp
				}
			}
			o.T = m + 1
		}
		if o.T < 0 {
			o.T = 0
		}
	default:
		o.Kind = "committed"
	}
	if o.Kind != "milli" && rng.IntN(4) == 0 {
		o.Epoch = true
	}
	o.RelFirst = rng.IntN(4) == 0
	p.Off = o
	if p.Mode == "group" {
		p.HasCommit = rng.IntN(2) == 0
		if p.HasCommit {
			if rng.IntN(10) == 0 {
				p.Commit = pickX()
			} else {
				p.Commit = S + rng.Int64N(E-S+1)
			}
			p.CommitEp = rng.IntN(2) == 0
		}
	}
}

// ---------------------------------------------------------------- oracle

type expect struct {
	Judge     bool
	DontCare  string // reason when not judged
	Pos       int64  // documented start position
	Raw       int64  // for exact out-of-range offsets: the position fetched before the reset
	OOR       bool   // exact offset outside the log: the documented path is OffsetOutOfRange, then the reset offset
	ExpectErr bool   // AtCommitted without a commit: an error, no records
	Cross     bool   // the requested position lies outside [log start, end]
	PosClass  string
	MilliCase string
}

func clamp(v, lo, hi int64) int64 {
	if v < lo {
		return lo
	}
	if v > hi {
		return hi
	}
	return v
}

func model(p *plan, g *truth) expect {
	S, H, L, E := g.S, g.H, g.L, g.E
	var e expect
	class := func(want int64) string {
		switch {
		case want < S:
			return "below-start"
		case want == S && S == E:
			return "empty-log"
		case want == S:
			return "at-start"
		case want < E:
			return "inside"
		case want == E:
			return "at-end"
		case want <= H:
			return "above-lso"
		default:
			return "beyond-end"
		}
	}
	exact := func(want int64) {
		e.PosClass = class(want)
		e.Cross = want < S || want > E
		if want < 0 {
			want = 0 // no offset is below 0: the nearest boundary of a log starting at 0 is 0 itself
		}
		if want >= S && want <= H {
			if p.RC && want > L {
				e.DontCare = "exact-offset-inside-log-above-lso-under-read-committed"
				return
			}
			e.Judge, e.Pos = true, want
			return
		}
		e.OOR = true
		e.Raw = want
		switch {
		case p.Mode == "parts":
			// ConsumePartitions offset is out of range and the reset policy is a
			// different offset (the default): OffsetOutOfRange then that policy.
			e.DontCare = "exact-offset-out-of-range-with-a-different-reset-policy"
		case p.Off.Epoch && want > H && p.RC:
			e.DontCare = "epoch-validated-offset-beyond-end-under-read-committed"
		default:
			e.Judge, e.Pos = true, clamp(want, S, E)
		}
	}
	if p.Mode == "group" && p.HasCommit {
		c := p.Commit
		e.PosClass = "committed-" + class(c)
		switch {
		case c < S || c > H:
			e.DontCare = "committed-offset-out-of-range"
		case p.RC && c > L:
			e.DontCare = "committed-offset-above-lso-under-read-committed"
		default:
			e.Judge, e.Pos = true, c
		}
		return e
	}
	o := p.Off
	kind, x := o.Kind, o.X
	if kind == "at" || kind == "at-rel" {
		// documented: -1 is AtEnd, -2 is AtStart, below -2 is bounded to -2
		if x == -1 {
			kind = "end-rel"
		} else if x <= -2 {
			kind = "start-rel"
		}
	}
	switch kind {
	case "at", "at-rel":
		exact(x + o.R)
	case "start", "start-rel":
		want := S + o.R
		e.PosClass, e.Cross = class(want), want < S || want > E
		e.Judge, e.Pos = true, clamp(want, S, E)
	case "end", "end-rel":
		want := E + o.R
		e.PosClass, e.Cross = class(want), want < S || want > E
		e.Judge, e.Pos = true, clamp(want, S, E)
	case "milli":
		found := int64(-1)
		idx := -1
		for i, r := range g.Recs {
			if r.Offset >= S && r.Timestamp >= o.T {
				found, idx = r.Offset, i
				break
			}
		}
		mono := true
		for i := 1; i < len(g.Recs); i++ {
			if g.Recs[i].Timestamp < g.Recs[i-1].Timestamp {
				mono = false
			}
		}
		switch {
		case found < 0:
			e.PosClass = "after-all"
			e.MilliCase = "no-record-at-or-after-t"
			e.Judge, e.Pos = true, E
		default:
			r := g.Recs[idx]
			switch {
			case idx == 0:
				e.PosClass = "before-all"
			case r.Timestamp == o.T:
				e.PosClass = "equal"
			default:
				e.PosClass = "between"
			}
			inBatch := 0
			for _, q := range g.Recs {
				if q.BatchBase == r.BatchBase {
					inBatch++
				}
			}
			switch {
			case !mono:
				e.MilliCase = "timestamps-out-of-order"
			case r.BatchBase < S:
				e.MilliCase = "batch-straddles-log-start"
			case inBatch > 1:
				e.MilliCase = "multi-record-batch"
			default:
				e.MilliCase = "single-record-batch"
			}
			if p.RC && L < H && found >= L {
				e.DontCare = "aftermilli-hit-at-or-above-lso-under-read-committed"
				return e
			}
			e.Judge, e.Pos = true, found
		}
	case "committed":
		if p.Mode == "group" {
			e.ExpectErr, e.Judge = true, true
			e.PosClass = "no-commit"
		} else {
			e.DontCare = "atcommitted-on-direct-consumer"
		}
	}
	return e
}

// ---------------------------------------------------------------- one case

var debugLogger kgo.Logger // set by TestDebugCase only

type obs struct {
	mu      sync.Mutex
	fetches []int64 // distinct consecutive FetchOffsets seen for the partition
	lists   int
	epochs  int
	ch      chan int64

	listErrs int // injected ListOffsets partition errors
}

type result struct {
	Plan     *plan    `json:"plan"`
	Offset   string   `json:"offset_expr"`
	LogStart int64    `json:"log_start"`
	HWM      int64    `json:"hwm"`
	LSO      int64    `json:"lso"`
	Expected int64    `json:"expected_position"`
	Fetches  []int64  `json:"fetch_offsets_seen"`
	Resolved int64    `json:"resolved_fetch_offset"`
	FirstRec int64    `json:"first_record_offset"`
	WantRec  int64    `json:"expected_first_record_offset"`
	Errs     []string `json:"poll_errors,omitempty"`
	Log      []string `json:"log,omitempty"`
}

func logDump(g *truth) []string {
	var out []string
	for _, r := range g.Recs {
		k := "data"
		if r.Control {
			k = "ctl"
		} else if r.Transactional {
			k = "txn"
		}
		out = append(out, fmt.Sprintf("o=%d batch=%d ts=%d %s", r.Offset, r.BatchBase, r.Timestamp, k))
	}
	return out
}

func runCase(r *vh.Run, i int) {
	rng := r.Rand("c40", i)
	p := &plan{Idx: i}
	genLog(rng, p)

	inconcl := func(what string, err error) {
		r.Inconclusive(fmt.Sprintf("case %d: %s: %v", i, what, err))
	}

	if lrng := r.Rand("c40-listerr", i); lrng.IntN(4) == 0 {
		p.ListErr, p.ListErrN = []string{"start", "end", "end", "any"}[lrng.IntN(4)], 1+lrng.IntN(2)
	}
	o := &obs{ch: make(chan int64, 4096)}
	fnet := &faultnet.Net{}
	var listErrLeft atomic.Int32
	listErrLeft.Store(int32(p.ListErrN))
	fnet.Decide = func(q *faultnet.Req) faultnet.Action {
		if q.Key != 2 || q.ClientID != cutID || p.ListErr == "" {
			return faultnet.Action{}
		}
		req, ok := q.Decode().(*kmsg.ListOffsetsRequest)
		if !ok || req == nil {
			return faultnet.Action{}
		}
		kind := ""
		for _, t := range req.Topics {
			for _, pt := range t.Partitions {
				k := "other"
				switch pt.Timestamp {
				case -2:
					k = "start"
				case -1:
					k = "end"
				}
				if kind == "" {
					kind = k
				} else if kind != k {
					kind = "other"
				}
			}
		}
		if p.ListErr != "any" && kind != p.ListErr {
			return faultnet.Action{}
		}
		if listErrLeft.Add(-1) < 0 {
			return faultnet.Action{}
		}
		o.mu.Lock()
		o.listErrs++
		o.mu.Unlock()
		return faultnet.Action{Kind: faultnet.Rewrite, Rewrite: func(frame []byte) []byte {
			return faultnet.RewriteBody(q, frame, func(kresp kmsg.Response) {
				resp, ok := kresp.(*kmsg.ListOffsetsResponse)
				if !ok {
					return
				}
				for ti := range resp.Topics {
					for pi := range resp.Topics[ti].Partitions {
						pt := &resp.Topics[ti].Partitions[pi]
						pt.ErrorCode = kerr.OffsetNotAvailable.Code
						pt.Offset = -1
						pt.Timestamp = -1
					}
				}
			})
		}}
	}
	fnet.Tap = func(q *faultnet.Req) {
		if q.ClientID != cutID {
			return
		}
		switch q.Key {
		case 2:
			o.mu.Lock()
			o.lists++
			o.mu.Unlock()
		case 23:
			o.mu.Lock()
			o.epochs++
			o.mu.Unlock()
		case 1:
			req, ok := q.Decode().(*kmsg.FetchRequest)
			if !ok || req == nil {
				return
			}
			for _, t := range req.Topics {
				if t.Topic != topic && t.Topic != "" {
					continue
				}
				for _, fp := range t.Partitions {
					if fp.Partition != p.Part {
						continue
					}
					o.mu.Lock()
					if n := len(o.fetches); n == 0 || o.fetches[n-1] != fp.FetchOffset {
						o.fetches = append(o.fetches, fp.FetchOffset)
						select {
						case o.ch <- fp.FetchOffset:
						default:
						}
					}
					o.mu.Unlock()
				}
			}
		}
	}
	env, err := e2e.NewEnv(false, p.Brokers, fnet, kfake.SeedTopics(int32(p.Parts), topic))
	if err != nil {
		inconcl("kfake", err)
		return
	}
	defer env.Close()

	ctx, cancel := context.WithTimeout(context.Background(), 3*watchdog)
	defer cancel()

	admin, err := env.NewClient()
	if err != nil {
		inconcl("admin client", err)
		return
	}
	defer admin.Close()
	adm := kadm.NewClient(admin)

	plain, err := env.NewClient(kgo.RecordPartitioner(kgo.ManualPartitioner()), kgo.ManualFlushing())
	if err != nil {
		inconcl("producer", err)
		return
	}
	defer plain.Close()
	var txn *kgo.Client
	needTxn := false
	for _, c := range p.Chunks {
		if c.Kind != "plain" {
			needTxn = true
		}
	}
	if needTxn {
		txn, err = env.NewClient(kgo.RecordPartitioner(kgo.ManualPartitioner()), kgo.ManualFlushing(),
			kgo.TransactionalID("c40-txn"), kgo.TransactionTimeout(5*time.Minute))
		if err != nil {
			inconcl("txn producer", err)
			return
		}
		defer txn.Close()
	}

	// ---- build the log
	seq := 0
	produce := func(cl *kgo.Client, tss []int64) error {
		var perr error
		var mu sync.Mutex
		for _, ts := range tss {
			rec := &kgo.Record{Topic: topic, Partition: p.Part, Value: []byte(fmt.Sprintf("v%d", seq)), Timestamp: time.UnixMilli(ts)}
			seq++
			cl.Produce(ctx, rec, func(_ *kgo.Record, err error) {
				if err != nil {
					mu.Lock()
					perr = err
					mu.Unlock()
				}
			})
		}
		if err := cl.Flush(ctx); err != nil {
			return err
		}
		mu.Lock()
		defer mu.Unlock()
		return perr
	}
	openTxn := false
	for _, c := range p.Chunks {
		switch c.Kind {
		case "plain":
			if err := produce(plain, c.TS); err != nil {
				inconcl("produce", err)
				return
			}
		default:
			if err := txn.BeginTransaction(); err != nil {
				inconcl("begin txn", err)
				return
			}
			if err := produce(txn, c.TS); err != nil {
				inconcl("txn produce", err)
				return
			}
			switch c.Kind {
			case "commit":
				err = txn.EndTransaction(ctx, kgo.TryCommit)
			case "abort":
				err = txn.EndTransaction(ctx, kgo.TryAbort)
			case "open":
				openTxn = true
			}
			if err != nil {
				inconcl("end txn", err)
				return
			}
		}
	}
	if p.DelTo > 0 {
		var offs kadm.Offsets
		offs.AddOffset(topic, p.Part, p.DelTo, -1)
		resp, err := adm.DeleteRecords(ctx, offs)
		if err == nil {
			err = resp.Error()
		}
		if err != nil {
			inconcl("delete records", err)
			return
		}
	}

	// ---- ground truth
	lg, err := e2e.ReadLog(ctx, admin, topic, p.Part)
	if err != nil {
		inconcl("read log", err)
		return
	}
	g := &truth{S: lg.LogStart, H: lg.HWM, L: lg.LSO, Recs: lg.Records}
	g.E = g.H
	if p.RC {
		g.E = g.L
	}
	if g.S != p.DelTo || (g.L < g.H) != openTxn || g.L < g.S || g.L > g.H {
		// the log is not of the shape the case asked for: nothing to judge against
		r.Inconclusive(fmt.Sprintf("case %d: log shape differs from the plan: start=%d (asked %d) lso=%d hwm=%d open=%v", i, g.S, p.DelTo, g.L, g.H, openTxn))
		return
	}
	var curEpoch int32
	if md, err := adm.Metadata(ctx, topic); err == nil {
		if pd, ok := md.Topics[topic].Partitions[p.Part]; ok {
			curEpoch = pd.LeaderEpoch
		}
	} else {
		inconcl("metadata", err)
		return
	}

	genOffset(rng, p, g)
	ex := model(p, g)
	res := &result{Plan: p, Offset: p.Off.String(), LogStart: g.S, HWM: g.H, LSO: g.L, Expected: ex.Pos, Resolved: -1, FirstRec: -1, WantRec: -1}
	wit := func(d string) map[string]any {
		o.mu.Lock()
		res.Fetches = append([]int64(nil), o.fetches...)
		o.mu.Unlock()
		res.Log = logDump(g)
		return map[string]any{"what": d, "case": res, "model": ex, "leader_epoch": curEpoch}
	}

	if p.Mode == "group" && p.HasCommit {
		var offs kadm.Offsets
		le := int32(-1)
		if p.CommitEp {
			le = curEpoch
		}
		offs.AddOffset(topic, p.Part, p.Commit, le)
		resp, err := adm.CommitOffsets(ctx, group, offs)
		if err == nil {
			err = resp.Error()
		}
		if err != nil {
			inconcl("commit offsets", err)
			return
		}
	}

	// ---- consumer under test
	off := p.Off.build(curEpoch)
	copts := []kgo.Opt{
		kgo.ClientID(cutID),
		kgo.FetchMaxWait(50 * time.Millisecond),
		kgo.MetadataMinAge(10 * time.Millisecond),
		kgo.RetryBackoffFn(func(n int) time.Duration { return time.Duration(1+n) * 2 * time.Millisecond }),
	}
	if p.RC {
		copts = append(copts, kgo.FetchIsolationLevel(kgo.ReadCommitted()))
	}
	if debugLogger != nil {
		copts = append(copts, kgo.WithLogger(debugLogger))
	}
	switch p.Mode {
	case "parts":
		copts = append(copts, kgo.ConsumePartitions(map[string]map[int32]kgo.Offset{topic: {p.Part: off}}))
	case "parts+reset":
		copts = append(copts, kgo.ConsumePartitions(map[string]map[int32]kgo.Offset{topic: {p.Part: off}}), kgo.ConsumeResetOffset(off))
	case "topics+reset":
		copts = append(copts, kgo.ConsumeTopics(topic), kgo.ConsumeResetOffset(off))
	case "topics+start":
		copts = append(copts, kgo.ConsumeTopics(topic), kgo.ConsumeStartOffset(off))
	case "group":
		copts = append(copts, kgo.ConsumeTopics(topic), kgo.ConsumerGroup(group), kgo.DisableAutoCommit())
		if rng.IntN(2) == 0 {
			copts = append(copts, kgo.ConsumeResetOffset(off))
		} else {
			copts = append(copts, kgo.ConsumeStartOffset(off))
		}
	}
	cut, err := env.NewClient(copts...)
	if err != nil {
		inconcl("consumer client", err)
		return
	}
	pctx, pcancel := context.WithCancel(ctx)
	recCh := make(chan int64, 1)
	errCh := make(chan string, 64)
	var pollWG sync.WaitGroup
	pollWG.Add(1)
	go func() {
		defer pollWG.Done()
		got := false
		for pctx.Err() == nil {
			fs := cut.PollFetches(pctx)
			if fs.IsClientClosed() || pctx.Err() != nil {
				return
			}
			fs.EachError(func(t string, pp int32, err error) {
				if t == topic && pp == p.Part {
					select {
					case errCh <- err.Error():
					default:
					}
				}
			})
			fs.EachRecord(func(rec *kgo.Record) {
				if rec.Topic == topic && rec.Partition == p.Part && !got {
					got = true
					recCh <- rec.Offset
				}
			})
		}
	}()
	defer func() {
		pcancel()
		cut.Close()
		pollWG.Wait()
	}()

	// sigKind names the rule that decides the position (part of violation
	// signatures); kindKey additionally carries the configured start offset
	// (part of the distinctness key only).
	sigKind := p.Off.Kind
	if p.Off.Epoch {
		sigKind += "+epoch"
	}
	kindKey := sigKind
	if p.Mode == "group" && p.HasCommit {
		sigKind = "group-committed"
		if p.CommitEp {
			sigKind += "+epoch"
		}
		kindKey = sigKind + "/" + kindKey
	}
	iso := "ru"
	if p.RC {
		iso = "rc"
	}
	r.Count("kind_"+p.Off.Kind, 1)
	r.Count("mode_"+p.Mode, 1)

	timer := time.NewTimer(watchdog)
	defer timer.Stop()
	noteErr := func(s string) {
		if len(res.Errs) < 8 {
			res.Errs = append(res.Errs, s)
		}
	}

	// ---- not judged: run until the consumer shows its first action, then stop
	if !ex.Judge {
		r.Count("dontcare", 1)
		r.Count("dontcare_"+ex.DontCare, 1)
		select {
		case <-o.ch:
		case <-errCh:
		case <-timer.C:
			r.Count("dontcare_no_action_before_watchdog", 1)
		}
		return
	}

	// ---- AtCommitted without a commit: an error for the partition, nothing fetched
	if ex.ExpectErr {
		select {
		case e := <-errCh:
			noteErr(e)
			r.Count("atcommitted_no_commit_error_seen", 1)
		case f := <-o.ch:
			r.Violation("AtCommitted group consumer without a commit fetched the partition", wit(fmt.Sprintf("fetch at %d", f)))
		case f := <-recCh:
			r.Violation("AtCommitted group consumer without a commit returned a record", wit(fmt.Sprintf("record %d", f)))
		case <-timer.C:
			r.Inconclusive(fmt.Sprintf("case %d: no error and no fetch before the watchdog (AtCommitted without commit)", i))
			return
		}
		r.Eval(1)
		if g.S > 0 || g.L < g.H {
			r.Distinct(fmt.Sprintf("%s|%s|%s|start>0=%v|lso<hwm=%v|no-commit", kindKey, p.Mode, iso, g.S > 0, g.L < g.H))
		}
		return
	}

	// ---- (a) the resolved fetch position
	resolved := int64(-1)
	for resolved < 0 {
		select {
		case f := <-o.ch:
			if ex.OOR && f == ex.Raw {
				r.Count("out_of_range_first_fetch_seen", 1)
				continue // the documented OffsetOutOfRange round; the reset follows
			}
			resolved = f
		case e := <-errCh:
			noteErr(e)
		case <-timer.C:
			r.Inconclusive(fmt.Sprintf("case %d: no resolved fetch before the watchdog (%s, mode %s)", i, p.Off, p.Mode))
			return
		}
	}
	res.Resolved = resolved
	r.Eval(1)
	o.mu.Lock()
	if o.listErrs > 0 {
		r.Count("list_offsets_partition_errors_injected", o.listErrs)
	}
	if o.lists > 0 {
		r.Count("resolved_via_listoffsets", 1)
	}
	if o.epochs > 0 {
		r.Count("resolved_via_offsetforleaderepoch", 1)
	}
	o.mu.Unlock()
	sigClass := ex.PosClass
	if ex.MilliCase != "" {
		sigClass += "/" + ex.MilliCase
	}
	if resolved != ex.Pos {
		sig := fmt.Sprintf("resolved fetch offset differs from the documented position: kind=%s iso=%s class=%s", sigKind, iso, sigClass)
		if ex.MilliCase != "" {
			sig = fmt.Sprintf("AfterMilli: resolved fetch offset is not the first offset with timestamp >= t, else the end [%s]", ex.MilliCase)
		}
		r.Violation(sig,
			wit(fmt.Sprintf("%s (mode %s): documented position %d, consumer fetched at %d", p.Off, p.Mode, ex.Pos, resolved)))
		return
	}

	// ---- (b) the first record returned: end the open transaction, append a sentinel
	if openTxn {
		how := kgo.TryAbort
		if p.EndCommit {
			how = kgo.TryCommit
		}
		if err := txn.EndTransaction(ctx, how); err != nil {
			inconcl("end open txn", err)
			return
		}
	}
	if err := produce(plain, []int64{9_000_000_000_000}); err != nil {
		inconcl("sentinel", err)
		return
	}
	first := int64(-1)
	for first < 0 {
		select {
		case first = <-recCh:
		case e := <-errCh:
			noteErr(e)
		case <-o.ch:
		case <-timer.C:
			r.Inconclusive(fmt.Sprintf("case %d: no record returned before the watchdog (%s, mode %s, resolved %d)", i, p.Off, p.Mode, resolved))
			return
		}
	}
	res.FirstRec = first
	fin, err := e2e.ReadLog(ctx, admin, topic, p.Part)
	if err != nil {
		inconcl("read final log", err)
		return
	}
	status := fin.TxnStatus()
	want := int64(-1)
	for _, rec := range fin.Records {
		if rec.Offset < ex.Pos || rec.Control {
			continue
		}
		if p.RC && status[rec.Offset] != "plain" && status[rec.Offset] != "committed" {
			continue
		}
		want = rec.Offset
		break
	}
	res.WantRec = want
	r.Eval(1)
	if want < 0 {
		r.Inconclusive(fmt.Sprintf("case %d: final log has no visible record at or after %d", i, ex.Pos))
		return
	}
	if first != want {
		r.Violation(fmt.Sprintf("first returned record differs from the first visible record at the documented position: kind=%s iso=%s class=%s", sigKind, iso, sigClass),
			wit(fmt.Sprintf("%s (mode %s): documented position %d, first visible record at or after it %d, first returned record %d", p.Off, p.Mode, ex.Pos, want, first)))
		return
	}

	r.Count("posclass_"+ex.PosClass, 1)
	if ex.MilliCase != "" {
		r.Count("milli_"+ex.MilliCase, 1)
	}
	multi := false
	for _, rec := range g.Recs {
		if rec.BatchBase != rec.Offset {
			multi = true
		}
	}
	if g.S > 0 || g.L < g.H || ex.Cross {
		r.Distinct(fmt.Sprintf("%s|%s|%s|start>0=%v|lso<hwm=%v|multi=%v|%s", kindKey, p.Mode, iso, g.S > 0, g.L < g.H, multi, sigClass))
		if r.WantSample() {
			o.mu.Lock()
			res.Fetches = append([]int64(nil), o.fetches...)
			o.mu.Unlock()
			r.Sample(res)
		}
	}
}

func TestCheck(t *testing.T) {
	r := vh.Start(t, "C40")
	n := r.Pick(400, 40000)
	vh.Parallel(n, r.Pick(8, 16), func(i int) {
		if p := vh.Catch(func() { runCase(r, i) }); p != nil {
			r.Inconclusive(fmt.Sprintf("case %d: harness panic: %v", i, p))
		}
	})
	r.Finish("exploration",
		"one evaluation = one judged observation (resolved FetchOffset, then first returned record) of one seeded case: a kfake partition log (0-7 batches of 1-4 records with non-decreasing/duplicate/out-of-order timestamps, committed and aborted transactions, optional open transaction + trailing plain batches, DeleteRecords to a random offset <= LSO) and one consumer started with a random Offset (At, At.Relative, AtStart/AtEnd +/- Relative, AfterMilli, AtCommitted, +WithEpoch) via ConsumePartitions / ConsumeTopics+ConsumeResetOffset|ConsumeStartOffset / ConsumerGroup with or without a committed offset, read_uncommitted or read_committed; non-trivial = log start > 0 or LSO < HWM or the requested position lies outside [log start, end]; distinct by (offset kind incl. epoch/commit flavour, consumer mode, isolation, log start > 0, LSO < HWM, multi-record batches, position class incl. the AfterMilli target class)",
		"ground truth is kfake's log read back by the harness with raw ListOffsets/Fetch (CRC-checked batches), including control markers and their broker-assigned timestamps",
		"'end' is the high watermark under read_uncommitted and the last stable offset under read_committed; AfterMilli counts control markers like a real broker's timestamp index does",
		"not judged (counted as dontcare): exact offsets outside the log under ConsumePartitions with the default reset policy, exact/committed offsets inside the log but above the LSO under read_committed, epoch-validated offsets beyond the end under read_committed, AfterMilli hits at or above the LSO under read_committed, committed offsets outside the log, AtCommitted on a direct consumer",
	)
}
