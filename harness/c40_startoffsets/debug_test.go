package c40

import (
	"encoding/json"
	"fmt"
	"os"
	"strconv"
	"testing"

	"github.com/twmb/franz-go/pkg/kgo"

	"verifharness/internal/vh"
)

// TestDebugCase re-runs one case (VERIF_CASE=<idx>, with VERIF_SEED/VERIF_TIER
// as in the failing run) with the consumer under test logging at debug level.
func TestDebugCase(t *testing.T) {
	idx, err := strconv.Atoi(os.Getenv("VERIF_CASE"))
	if err != nil {
		t.Skip("VERIF_CASE not set")
	}
	os.Setenv("VERIF_NO_EVIDENCE", "1")
	r := vh.Start(t, "C40")
	debugLogger = kgo.BasicLogger(os.Stderr, kgo.LogLevelDebug, nil)
	runCase(r, idx)
	raw, _ := json.Marshal(map[string]any{"violations": r.Violations(), "inconclusive": r.Counter("inconclusive"), "dontcare": r.Counter("dontcare")})
	fmt.Println(string(raw))
}
