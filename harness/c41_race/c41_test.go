// C41 — concurrent API use is free of data races.
//
// This package is built with the Go race detector (and without the synctests
// tag, so the client uses real sync.Mutex) by the C41 driver in ./check. It
// runs small real-time editions of the producer, direct-consumer and group
// workloads plus an API-mixing stress (produce / poll / commit / pause /
// add-remove topics / purge / forced metadata refresh with leader moves /
// gauges / Close, with promises, hooks and rebalance callbacks that call
// client methods). The driver parses the race detector's log files: every
// report whose stacks contain a github.com/twmb/franz-go frame is a violation.
// Each run prints a C41OBS line: executions and the API pairs that were
// observed overlapping in time.
package c41

import (
	"context"
	"fmt"
	"math/rand/v2"
	"os"
	"sort"
	"strconv"
	"strings"
	"sync"
	"sync/atomic"
	"testing"
	"time"

	"github.com/twmb/franz-go/pkg/kfake"
	"github.com/twmb/franz-go/pkg/kgo"

	"verifharness/internal/conswl"
	"verifharness/internal/e2e"
	"verifharness/internal/groupwl"
	"verifharness/internal/prodwl"
	"verifharness/internal/vh"
)

type tracker struct {
	mu      sync.Mutex
	active  map[string]int
	overlap map[string]bool
}

func (t *tracker) enter(api string) func() {
	t.mu.Lock()
	for other, n := range t.active {
		if n > 0 {
			a, b := api, other
			if a > b {
				a, b = b, a
			}
			t.overlap[a+"|"+b] = true
		}
	}
	t.active[api]++
	t.mu.Unlock()
	return func() { t.mu.Lock(); t.active[api]--; t.mu.Unlock() }
}

type hooks struct {
	t  *tracker
	cl **kgo.Client
}

func (h hooks) OnProduceRecordBuffered(*kgo.Record) {
	defer h.t.enter("hook:ProduceBuffered")()
	if c := *h.cl; c != nil {
		c.BufferedProduceRecords()
	}
}
func (h hooks) OnProduceRecordUnbuffered(*kgo.Record, error) {
	defer h.t.enter("hook:ProduceUnbuffered")()
}
func (h hooks) OnFetchRecordBuffered(*kgo.Record) { defer h.t.enter("hook:FetchBuffered")() }
func (h hooks) OnFetchRecordUnbuffered(*kgo.Record, bool) {
	defer h.t.enter("hook:FetchUnbuffered")()
	if c := *h.cl; c != nil {
		c.BufferedFetchRecords()
	}
}

// stress mixes the documented-concurrent-safe APIs on ONE client.
func stress(seed uint64, tr *tracker) (polled int64, err error) {
	env, err := e2e.NewEnv(false, 3, nil, kfake.SeedTopics(4, "s-a", "s-b", "s-c"))
	if err != nil {
		return 0, err
	}
	defer env.Close()
	var clp *kgo.Client
	cl, err := env.NewClient(kgo.WithHooks(hooks{tr, &clp}), kgo.ConsumerGroup("sg"), kgo.ConsumeTopics("s-a"), kgo.Balancers(kgo.CooperativeStickyBalancer()),
		kgo.ConsumeResetOffset(kgo.NewOffset().AtStart()), kgo.AutoCommitInterval(100*time.Millisecond), kgo.FetchMaxWait(50*time.Millisecond), kgo.MetadataMinAge(10*time.Millisecond),
		kgo.OnPartitionsAssigned(func(_ context.Context, c *kgo.Client, _ map[string][]int32) {
			defer tr.enter("cb:Assigned")()
			c.CommittedOffsets()
		}),
		kgo.OnPartitionsRevoked(func(ctx context.Context, c *kgo.Client, _ map[string][]int32) {
			defer tr.enter("cb:Revoked")()
			c.CommitUncommittedOffsets(ctx)
		}),
	)
	if err != nil {
		return 0, err
	}
	clp = cl
	other, err := env.NewClient(kgo.ConsumerGroup("sg"), kgo.ConsumeTopics("s-a"), kgo.Balancers(kgo.CooperativeStickyBalancer()))
	if err != nil {
		cl.Close()
		return 0, err
	}
	var produced, fetched atomic.Int64
	// warm-up: the member joins and consumes before the disruptive calls begin, so that the fetch
	// and poll paths are live while everything else runs (a run that polled nothing observed
	// nothing of the consumer)
	for i := 0; i < 40; i++ {
		cl.Produce(context.Background(), &kgo.Record{Topic: "s-a", Partition: int32(i % 3), Value: []byte("warm")}, nil)
	}
	for t0 := time.Now(); fetched.Load() == 0 && time.Since(t0) < 8*time.Second; {
		ctx, cancel := context.WithTimeout(context.Background(), 100*time.Millisecond)
		cl.PollFetches(ctx).EachRecord(func(*kgo.Record) { fetched.Add(1) })
		other.PollFetches(ctx)
		cancel()
	}
	// a standing partition-level pause: the topic's entry in the paused set then exists for the
	// whole run, so every fetch request built and every poll consults its partition set while
	// PauseResume below keeps adding to and deleting from the same topic's set
	cl.PauseFetchPartitions(map[string][]int32{"s-b": {3}, "s-a": {3}})
	stop := make(chan struct{})
	var wg sync.WaitGroup
	spawn := func(name string, fn func(rng *rand.Rand)) {
		if strings.Contains(","+os.Getenv("VERIF_C41_SKIP")+",", ","+name+",") { // calibration knob
			return
		}
		wg.Add(1)
		go func() {
			defer wg.Done()
			rng := rand.New(rand.NewPCG(seed, uint64(len(name))))
			for {
				select {
				case <-stop:
					return
				default:
				}
				done := tr.enter(name)
				fn(rng)
				done()
				e2e.Jitter(rng, 800)
			}
		}()
	}
	spawn("Produce", func(rng *rand.Rand) {
		t := []string{"s-a", "s-b", "s-c"}[rng.IntN(3)]
		cl.Produce(context.Background(), &kgo.Record{Topic: t, Value: []byte("v")}, func(r *kgo.Record, err error) {
			defer tr.enter("promise")()
			produced.Add(1)
			cl.BufferedProduceBytes()
		})
	})
	spawn("TryProduce", func(rng *rand.Rand) {
		cl.TryProduce(context.Background(), &kgo.Record{Topic: "s-a", Value: []byte("w")}, nil)
	})
	spawn("PollFetches", func(rng *rand.Rand) {
		ctx, cancel := context.WithTimeout(context.Background(), 30*time.Millisecond)
		fs := cl.PollFetches(ctx)
		cancel()
		fs.EachRecord(func(*kgo.Record) { fetched.Add(1) })
	})
	spawn("OtherMemberPoll", func(rng *rand.Rand) {
		ctx, cancel := context.WithTimeout(context.Background(), 30*time.Millisecond)
		other.PollFetches(ctx)
		cancel()
	})
	spawn("CommitUncommittedOffsets", func(rng *rand.Rand) {
		ctx, cancel := context.WithTimeout(context.Background(), 500*time.Millisecond)
		cl.CommitUncommittedOffsets(ctx)
		cancel()
		time.Sleep(5 * time.Millisecond)
	})
	spawn("PauseResume", func(rng *rand.Rand) {
		cl.PauseFetchTopics("s-a")
		cl.PauseFetchPartitions(map[string][]int32{"s-b": {0, 1}})
		time.Sleep(time.Millisecond)
		cl.ResumeFetchTopics("s-a")
		cl.ResumeFetchPartitions(map[string][]int32{"s-b": {0, 1}})
		cl.PauseFetchPartitions(map[string][]int32{"s-a": {rng.Int32N(3)}})
		cl.PauseFetchTopics() // the no-argument forms read the current set
		cl.PauseFetchPartitions(nil)
		cl.ResumeFetchPartitions(map[string][]int32{"s-a": {0, 1, 2}})
	})
	spawn("AddConsumeTopics", func(rng *rand.Rand) {
		time.Sleep(300 * time.Millisecond)
		cl.AddConsumeTopics("s-b") // (re)joins the group: rare, so that the member consumes in between
		time.Sleep(900 * time.Millisecond)
	})
	spawn("PurgeTopicsFromClient", func(rng *rand.Rand) {
		time.Sleep(700 * time.Millisecond)
		cl.PurgeTopicsFromClient("s-c") // forces a group rejoin each time: keep it rare enough for the group to consume in between
		time.Sleep(700 * time.Millisecond)
	})
	spawn("ForceMetadataRefresh+LeaderMove", func(rng *rand.Rand) {
		env.C.MoveTopicPartition([]string{"s-a", "s-b"}[rng.IntN(2)], int32(rng.IntN(4)), int32(rng.IntN(3)))
		cl.ForceMetadataRefresh()
		time.Sleep(60 * time.Millisecond)
	})
	spawn("Gauges", func(rng *rand.Rand) {
		cl.BufferedProduceRecords()
		cl.BufferedFetchRecords()
		cl.UncommittedOffsets()
		cl.GroupMetadata()
		cl.GetConsumeTopics()
	})
	spawn("Flush", func(rng *rand.Rand) {
		ctx, cancel := context.WithTimeout(context.Background(), 200*time.Millisecond)
		cl.Flush(ctx)
		cancel()
		time.Sleep(3 * time.Millisecond)
	})
	time.Sleep(time.Duration(2500+seed%1000) * time.Millisecond)
	// Close races everything else
	done := tr.enter("Close")
	cl.Close()
	done()
	close(stop)
	wg.Wait()
	other.Close()
	fmt.Printf("stress seed %d: promises %d, records polled %d\n", seed, produced.Load(), fetched.Load())
	return fetched.Load(), nil
}

// topicChurn: a direct consumer + producer whose topic maps are churned: topics
// are added to and purged from consuming and producing in tight loops while
// lock-free readers of the published maps (GetConsumeTopics, Produce's topic
// lookup, the metadata loop, polls) run. The purges here do not rejoin a group,
// so hundreds of them happen per run (stress() manages two).
func topicChurn(seed uint64, tr *tracker) (purges int64, err error) {
	env, err := e2e.NewEnv(false, 2, nil, kfake.SeedTopics(2, "tc-a", "tc-p", "tc-extra"))
	if err != nil {
		return 0, err
	}
	defer env.Close()
	cl, err := env.NewClient(kgo.ConsumeTopics("tc-a"), kgo.ConsumeResetOffset(kgo.NewOffset().AtStart()),
		kgo.FetchMaxWait(50*time.Millisecond), kgo.MetadataMinAge(10*time.Millisecond))
	if err != nil {
		return 0, err
	}
	stop := make(chan struct{})
	var wg sync.WaitGroup
	var np atomic.Int64
	spawn := func(name string, fn func(rng *rand.Rand)) {
		wg.Add(1)
		go func() {
			defer wg.Done()
			rng := rand.New(rand.NewPCG(seed, uint64(len(name))))
			for {
				select {
				case <-stop:
					return
				default:
				}
				done := tr.enter(name)
				fn(rng)
				done()
				e2e.Jitter(rng, 300)
			}
		}()
	}
	spawn("AddConsumeTopics+PurgeTopicsFromConsuming", func(rng *rand.Rand) {
		cl.AddConsumeTopics("tc-extra")
		e2e.Jitter(rng, 500)
		cl.PurgeTopicsFromConsuming("tc-extra")
		np.Add(1)
	})
	spawn("GetConsumeTopics", func(rng *rand.Rand) { cl.GetConsumeTopics() })
	spawn("GetConsumeTopics", func(rng *rand.Rand) { cl.GetConsumeTopics() })
	spawn("Produce", func(rng *rand.Rand) {
		t := []string{"tc-a", "tc-p"}[rng.IntN(2)]
		cl.Produce(context.Background(), &kgo.Record{Topic: t, Value: []byte("v")}, nil)
	})
	spawn("TryProduce", func(rng *rand.Rand) {
		cl.TryProduce(context.Background(), &kgo.Record{Topic: "tc-p", Value: []byte("w")}, nil)
	})
	spawn("PurgeTopicsFromProducing", func(rng *rand.Rand) {
		e2e.Jitter(rng, 2000)
		cl.PurgeTopicsFromProducing("tc-p")
		np.Add(1)
	})
	spawn("PollFetches", func(rng *rand.Rand) {
		ctx, cancel := context.WithTimeout(context.Background(), 20*time.Millisecond)
		cl.PollFetches(ctx)
		cancel()
	})
	spawn("ForceMetadataRefresh", func(rng *rand.Rand) {
		cl.ForceMetadataRefresh()
		time.Sleep(15 * time.Millisecond)
	})
	time.Sleep(time.Duration(1200+seed%600) * time.Millisecond)
	close(stop)
	wg.Wait()
	done := tr.enter("Close")
	cl.Close()
	done()
	fmt.Printf("topic churn seed %d: %d purges\n", seed, np.Load())
	return np.Load(), nil
}

func TestCheck(t *testing.T) {
	r := vh.Start(t, "C41")
	if os.Getenv("VERIF_C41") == "" {
		t.Skip("run through ./check C41 (built with -race by the driver)")
	}
	tr := &tracker{active: map[string]int{}, overlap: map[string]bool{}}
	runs := 0
	var mu sync.Mutex
	addOverlap := func(prefix string, m map[string]bool) {
		mu.Lock()
		for k := range m {
			tr.overlap[prefix+k] = true
		}
		mu.Unlock()
	}
	nP, nC, nG, nS := r.Pick(16, 80), r.Pick(4, 30), r.Pick(12, 80), r.Pick(4, 30)
	if v := os.Getenv("VERIF_C41_ONLY"); v != "" { // calibration knob: run one workload family only
		n, _ := strconv.Atoi(os.Getenv("VERIF_C41_N"))
		nP, nC, nG, nS = 0, 0, 0, 0
		switch v {
		case "p":
			nP = n
		case "c":
			nC = n
		case "g":
			nG = n
		case "s":
			nS = n
		}
	}
	vh.Parallel(nP, 4, func(i int) {
		rng := r.Rand("c41-p", i)
		p := prodwl.Plan{Seed: uint64(r.Seed)<<20 | uint64(i), Brokers: 2, Partitions: 3, LingerMs: rng.IntN(2), MaxBufRecs: []int{4, 64}[rng.IntN(2)], Idempotent: rng.IntN(2) == 0,
			Compression: "none", Producers: 4, PerProducer: 60, ValueMax: 50, TryP: 0.3, SyncP: 0.05, CancelP: 0.2, UnknownP: 0.02, LateTopic: true, Flushers: 2, Aborts: 1, Purges: 1,
			CloseMid: rng.IntN(2) == 0, KillAfterP: 0.05, KillBeforeP: 0.05, RetriableP: 0.05, LeaderMoves: 3}
		res := prodwl.Run(p, 120*time.Second)
		addOverlap("", res.Overlap)
		mu.Lock()
		runs++
		mu.Unlock()
	})
	vh.Parallel(nC, 4, func(i int) {
		rng := r.Rand("c41-c", i)
		p := conswl.GenPlan(rng, uint64(r.Seed)<<20|uint64(i), false, i%2 == 0)
		p.PerProducer = 80
		p.Pauses = 6
		p.Yield = 0
		conswl.Run(p, 120*time.Second)
		addOverlap("", map[string]bool{"PollFetches|PauseFetchTopics": p.Pauses > 0})
		mu.Lock()
		runs++
		mu.Unlock()
	})
	vh.Parallel(nG, 4, func(i int) {
		rng := r.Rand("c41-g", i)
		p := groupwl.GenPlan(rng, uint64(r.Seed)<<20|uint64(i), false)
		p.Records = 200
		p.Yield = 0
		if i%2 == 0 { // partial takes (PollRecords with a small limit) racing rebalances
			p.PollRecords = 3
			p.Protocol = []string{"cooperative", "848"}[(i/2)%2]
		}
		groupwl.Run(p, 120*time.Second)
		mu.Lock()
		runs++
		mu.Unlock()
	})
	var stressPolled int64
	for i := 0; i < nS; i++ {
		n, err := stress(uint64(r.Seed)<<20|uint64(i), tr)
		if err != nil {
			fmt.Println("stress error:", err)
			continue
		}
		stressPolled += n
		runs++
	}
	var churnPurges int64
	nT := r.Pick(3, 20)
	if os.Getenv("VERIF_C41_ONLY") != "" && os.Getenv("VERIF_C41_ONLY") != "t" {
		nT = 0
	}
	for i := 0; i < nT; i++ {
		n, err := topicChurn(uint64(r.Seed)<<20|uint64(i), tr)
		if err != nil {
			fmt.Println("topic churn error:", err)
			continue
		}
		churnPurges += n
		runs++
	}
	var ov []string
	for k, v := range tr.overlap {
		if v {
			ov = append(ov, k)
		}
	}
	sort.Strings(ov)
	vh.C41Obs(runs, ov, map[string]any{"producer_scenarios": nP, "consumer_scenarios": nC, "group_scenarios": nG, "api_mix_stress_runs": nS, "api_mix_stress_records_polled": stressPolled, "topic_churn_runs": nT, "topic_churn_purges": churnPurges})
	fmt.Printf("C41 workloads done: %d runs, %d overlapping API pairs\n", runs, len(ov))
}
