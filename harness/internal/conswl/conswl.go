// Package conswl is the seeded direct-consumer workload shared by the
// consumer-side checks (C04, C05, C14, C41): producers (plain and
// transactional, committing and aborting) keep appending unique records while
// a direct consumer polls with PollFetches / PollRecords(n), pauses and
// resumes, and the broker side injects fetch faults (connections killed before
// or after handling a Fetch, fetch-session errors, retriable partition errors,
// delays, session-cache evictions, leader moves, preferred-replica moves).
// Everything returned is recorded with one logical clock; the partition logs
// are read back independently as ground truth.
package conswl

import (
	"bytes"
	"context"
	"fmt"
	"math/rand/v2"
	"sync"
	"sync/atomic"
	"time"

	"github.com/twmb/franz-go/pkg/kerr"
	"github.com/twmb/franz-go/pkg/kfake"
	"github.com/twmb/franz-go/pkg/kgo"
	"github.com/twmb/franz-go/pkg/kmsg"

	"verifharness/internal/e2e"
	"verifharness/internal/faultnet"
)

type Plan struct {
	Seed       uint64 `json:"seed"`
	VT         bool   `json:"vt"`
	Brokers    int    `json:"brokers"`
	Topics     int    `json:"topics"`
	Partitions int    `json:"partitions"`

	// producers
	PlainProducers int     `json:"plain_producers"`
	TxnProducers   int     `json:"txn_producers"`
	PerProducer    int     `json:"per_producer"`
	TxnSize        int     `json:"txn_size"`
	AbortP         float64 `json:"abort_p"`
	ValueMax       int     `json:"value_max"`
	Compression    string  `json:"compression"`
	LeaveOpenTxn   bool    `json:"leave_open_txn"` // one transaction is still open while the consumer is judged

	// consumer
	ReadCommitted   bool `json:"read_committed"`
	KeepControl     bool `json:"keep_control_records"`
	FetchMaxBytes   int  `json:"fetch_max_bytes"`
	PartMaxBytes    int  `json:"fetch_max_partition_bytes"`
	MaxConcFetches  int  `json:"max_concurrent_fetches"`
	PollRecordsMax  int  `json:"poll_records_max"` // 0 = PollFetches only
	NoSessions      bool `json:"disable_fetch_sessions"`
	SessionSlots    int  `json:"session_cache_slots"` // kfake broker config; 0 = default
	Pauses          int  `json:"pauses"`
	ByPartitions    bool `json:"consume_partitions"` // ConsumePartitions instead of ConsumeTopics
	Rack            bool `json:"rack_followers"`     // preferred read replica
	Yield           int  `json:"yield_level"`
	ProcessDelayMax int  `json:"process_delay_max_us"`

	// faults
	KillBeforeP float64 `json:"kill_before_p"`
	KillAfterP  float64 `json:"kill_after_p"`
	SessionErrP float64 `json:"session_err_p"`
	PartErrP    float64 `json:"partition_err_p"`
	DelayP      float64 `json:"delay_p"`
	MetaKillP   float64 `json:"metadata_kill_p"`
	LeaderMoves int     `json:"leader_moves"`
}

// Returned is one record handed to the application by a poll.
type Returned struct {
	Topic     string
	Partition int32
	Offset    int64
	ID        string
	Control   bool
	Poll      int   // poll index
	Clock     int64 // clock when the poll returned
}

// TxnEv describes one transaction of a transactional producer.
type TxnEv struct {
	Producer     int
	IDs          []string
	Commit       bool
	EndCallClock int64
	EndRetClock  int64
	EndErr       string
}

type Result struct {
	Plan      Plan
	Returned  []Returned
	Polls     int
	Txns      []TxnEv
	Logs      map[string]*e2e.PartitionLog
	LogsMid   map[string]*e2e.PartitionLog // snapshot taken while a transaction is still open (LeaveOpenTxn)
	MidCount  int                          // len(Returned) when LogsMid was taken
	Start     map[string]int64             // start offset per "topic/partition" (0 unless StartMid)
	Drained   bool
	Inconcl   []string
	Problems  []Problem
	Fired     map[string]int64
	Events    map[string]int // pause strips, session resets, moves observed ...
	YieldHits map[string]int64
	FetchErrs []string

	// fetch hooks
	HookBuffered   int64
	HookUnbuffered int64
	HookPolled     int64
	HookDiscarded  int64
	HookUnpaired   int   // records buffered but never unbuffered at the end (VT quiescence only)
	HookChecked    bool  // pairing was judged at a quiescent point
	GaugeRecs      int64 // BufferedFetchRecords at the quiescent point
	GaugeBytes     int64
	GaugeSampled   bool
	PollAfterClose string
	Overlap        map[string]bool
	ProducedTotal  int
	Stacks         string
}

type Problem struct{ Sig, Detail string }

func tpKey(t string, p int32) string { return fmt.Sprintf("%s/%d", t, p) }

func IDOf(v []byte) string {
	if i := bytes.IndexByte(v, '|'); i > 0 {
		return string(v[:i])
	}
	return ""
}

type fhook struct {
	mu     sync.Mutex
	state  map[*kgo.Record]int // 1 buffered, 2 unbuffered
	w      *world
	nb, nu atomic.Int64
	np, nd atomic.Int64
}

func (h *fhook) OnFetchRecordBuffered(r *kgo.Record) {
	h.nb.Add(1)
	h.mu.Lock()
	if st := h.state[r]; st != 0 {
		h.w.problem("fetch-hook-buffered-twice", fmt.Sprintf("record %s/%d@%d buffered again (state %d)", r.Topic, r.Partition, r.Offset, st))
	}
	h.state[r] = 1
	h.mu.Unlock()
}

func (h *fhook) OnFetchRecordUnbuffered(r *kgo.Record, polled bool) {
	h.nu.Add(1)
	if polled {
		h.np.Add(1)
	} else {
		h.nd.Add(1)
	}
	h.mu.Lock()
	switch h.state[r] {
	case 0:
		h.w.problem("fetch-hook-unbuffered-without-buffered", fmt.Sprintf("record %s/%d@%d unbuffered (polled=%v) but never buffered", r.Topic, r.Partition, r.Offset, polled))
	case 2:
		h.w.problem("fetch-hook-unbuffered-twice", fmt.Sprintf("record %s/%d@%d unbuffered twice (polled=%v)", r.Topic, r.Partition, r.Offset, polled))
	}
	h.state[r] = 2
	h.mu.Unlock()
}

type world struct {
	clock    atomic.Int64
	probMu   sync.Mutex
	problems []Problem
	evMu     sync.Mutex
	events   map[string]int
}

func (w *world) tick() int64 { return w.clock.Add(1) }
func (w *world) problem(sig, detail string) {
	w.probMu.Lock()
	if len(w.problems) < 50 {
		w.problems = append(w.problems, Problem{sig, detail})
	}
	w.probMu.Unlock()
}
func (w *world) event(k string) {
	w.evMu.Lock()
	w.events[k]++
	w.evMu.Unlock()
}

func topicName(i int) string { return fmt.Sprintf("ct-%d", i) }

func fetchErrResp(req *kmsg.FetchRequest, topLevel int16, partCode int16, rng *rand.Rand) kmsg.Response {
	resp := req.ResponseKind().(*kmsg.FetchResponse)
	if topLevel != 0 {
		resp.ErrorCode = topLevel
		return resp
	}
	resp.SessionID = 0
	for _, t := range req.Topics {
		st := kmsg.NewFetchResponseTopic()
		st.Topic = t.Topic
		st.TopicID = t.TopicID
		for _, p := range t.Partitions {
			sp := kmsg.NewFetchResponseTopicPartition()
			sp.Partition = p.Partition
			sp.ErrorCode = partCode
			sp.HighWatermark = -1
			sp.LastStableOffset = -1
			sp.LogStartOffset = -1
			st.Partitions = append(st.Partitions, sp)
		}
		resp.Topics = append(resp.Topics, st)
	}
	return resp
}

var partErrs = []int16{kerr.NotLeaderForPartition.Code, kerr.UnknownTopicOrPartition.Code, kerr.KafkaStorageError.Code, kerr.LeaderNotAvailable.Code, kerr.FencedLeaderEpoch.Code, kerr.OffsetNotAvailable.Code}

// Run executes one scenario.
func Run(plan Plan, watchdog time.Duration) (res *Result) {
	res = &Result{Plan: plan, Logs: map[string]*e2e.PartitionLog{}, Start: map[string]int64{}, Overlap: map[string]bool{}}
	w := &world{events: map[string]int{}}
	var inMu sync.Mutex
	inconcl := func(msg string) {
		inMu.Lock()
		res.Inconcl = append(res.Inconcl, msg)
		inMu.Unlock()
	}
	defer func() {
		res.Problems = w.problems
		res.Events = w.events
	}()

	frng := rand.New(rand.NewPCG(plan.Seed, 7))
	var fmu sync.Mutex
	var faultsOn atomic.Bool
	faultsOn.Store(true)
	fnet := &faultnet.Net{}
	fnet.Decide = func(r *faultnet.Req) faultnet.Action {
		if !faultsOn.Load() || r.ClientID != "vcons" {
			return faultnet.Action{} // faults hit the consumer under test only, not the workload's producers
		}
		fmu.Lock()
		defer fmu.Unlock()
		x := frng.Float64()
		switch r.Key {
		case 1:
			switch {
			case x < plan.KillBeforeP:
				return faultnet.Action{Kind: faultnet.KillBefore}
			case x < plan.KillBeforeP+plan.KillAfterP:
				return faultnet.Action{Kind: faultnet.KillAfter}
			case x < plan.KillBeforeP+plan.KillAfterP+plan.DelayP:
				return faultnet.Action{Kind: faultnet.Delay, D: time.Duration(1+frng.IntN(30)) * time.Millisecond}
			}
		case 2, 3:
			if x < plan.MetaKillP {
				return faultnet.Action{Kind: []faultnet.Kind{faultnet.KillBefore, faultnet.KillAfter}[frng.IntN(2)]}
			}
		}
		return faultnet.Action{}
	}
	var topics []string
	for i := 0; i < plan.Topics; i++ {
		topics = append(topics, topicName(i))
	}
	kopts := []kfake.Opt{kfake.SeedTopics(int32(plan.Partitions), topics...)}
	if plan.SessionSlots > 0 {
		kopts = append(kopts, kfake.BrokerConfigs(map[string]string{"max.incremental.fetch.session.cache.slots": fmt.Sprint(plan.SessionSlots)}))
	}
	env, err := e2e.NewEnv(plan.VT, plan.Brokers, fnet, kopts...)
	if err != nil {
		res.Inconcl = append(res.Inconcl, "kfake: "+err.Error())
		return res
	}
	defer env.Close()

	crng := rand.New(rand.NewPCG(plan.Seed, 9))
	if plan.SessionErrP > 0 || plan.PartErrP > 0 {
		env.C.ControlKey(1, func(kreq kmsg.Request) (kmsg.Response, error, bool) {
			env.C.KeepControl()
			if !faultsOn.Load() {
				return nil, nil, false
			}
			req := kreq.(*kmsg.FetchRequest)
			x := crng.Float64()
			switch {
			case x < plan.SessionErrP && req.SessionEpoch > 0:
				code := kerr.FetchSessionIDNotFound.Code
				if crng.IntN(2) == 0 {
					code = kerr.InvalidFetchSessionEpoch.Code
				}
				w.event("inject-session-error")
				return fetchErrResp(req, code, 0, crng), nil, true
			case x < plan.SessionErrP+plan.PartErrP && req.SessionEpoch <= 0 && len(req.Topics) > 0:
				// per-partition errors only on full (sessionless / epoch 0) requests, where the
				// response lists every requested partition like a real broker's does
				w.event("inject-partition-error")
				return fetchErrResp(req, 0, partErrs[crng.IntN(len(partErrs))], crng), nil, true
			}
			return nil, nil, false
		})
	}

	y := e2e.NewYield(plan.Seed, plan.Yield, plan.VT)
	if plan.Yield > 0 {
		y.Install()
		defer e2e.Uninstall()
	}
	defer func() {
		res.Fired = fnet.Fired()
		res.YieldHits = y.Hits()
	}()

	admin, err := env.NewClient()
	if err != nil {
		res.Inconcl = append(res.Inconcl, "admin client: "+err.Error())
		return res
	}
	defer admin.Close()

	if plan.Rack {
		for _, t := range topics {
			for p := 0; p < plan.Partitions; p++ {
				var f []int32
				for b := 0; b < plan.Brokers; b++ {
					f = append(f, int32(b))
				}
				env.C.SetFollowers(t, int32(p), f)
			}
		}
	}

	// ---------------- producers
	var prodWG sync.WaitGroup
	var produced atomic.Int64
	var txnMu sync.Mutex
	compOpt := func() kgo.Opt {
		switch plan.Compression {
		case "gzip":
			return kgo.ProducerBatchCompression(kgo.GzipCompression())
		case "snappy":
			return kgo.ProducerBatchCompression(kgo.SnappyCompression())
		case "lz4":
			return kgo.ProducerBatchCompression(kgo.Lz4Compression())
		case "zstd":
			return kgo.ProducerBatchCompression(kgo.ZstdCompression())
		}
		return kgo.ProducerBatchCompression(kgo.NoCompression())
	}
	mkRec := func(prng *rand.Rand, producer, i int) *kgo.Record {
		id := e2e.RID(producer, i)
		val := make([]byte, len(id)+1+prng.IntN(plan.ValueMax+1))
		copy(val, id)
		val[len(id)] = '|'
		for k := len(id) + 1; k < len(val); k++ {
			val[k] = byte('a' + k%26)
		}
		return &kgo.Record{Topic: topics[prng.IntN(len(topics))], Partition: int32(prng.IntN(plan.Partitions)), Value: val}
	}
	openTxnHold := make(chan struct{})
	openTxnReady := make(chan struct{})
	var openOnce sync.Once
	for p := 0; p < plan.PlainProducers; p++ {
		prodWG.Add(1)
		go func(p int) {
			defer prodWG.Done()
			prng := rand.New(rand.NewPCG(plan.Seed, uint64(100+p)))
			cl, err := env.NewClient(kgo.RecordPartitioner(kgo.ManualPartitioner()), compOpt(), kgo.ProducerLinger(time.Duration(prng.IntN(3))*time.Millisecond))
			if err != nil {
				return
			}
			defer cl.Close()
			for i := 0; i < plan.PerProducer; i++ {
				r := mkRec(prng, p, i)
				cl.Produce(context.Background(), r, func(_ *kgo.Record, err error) {
					if err == nil {
						produced.Add(1)
					}
				})
				if prng.IntN(16) == 0 {
					e2e.Jitter(prng, 500)
				}
			}
			ctx, cancel := context.WithTimeout(context.Background(), watchdog)
			cl.Flush(ctx)
			cancel()
		}(p)
	}
	for p := 0; p < plan.TxnProducers; p++ {
		prodWG.Add(1)
		go func(p int) {
			defer prodWG.Done()
			pid := 1000 + p
			prng := rand.New(rand.NewPCG(plan.Seed, uint64(200+p)))
			cl, err := env.NewClient(kgo.RecordPartitioner(kgo.ManualPartitioner()), compOpt(), kgo.TransactionalID(fmt.Sprintf("txn-%d-%d", plan.Seed, p)), kgo.TransactionTimeout(2*time.Minute))
			if err != nil {
				return
			}
			defer cl.Close()
			i := 0
			for i < plan.PerProducer {
				if err := cl.BeginTransaction(); err != nil {
					inconcl("begin txn: " + err.Error())
					return
				}
				n := 1 + prng.IntN(plan.TxnSize)
				ev := TxnEv{Producer: pid, Commit: prng.Float64() >= plan.AbortP}
				for k := 0; k < n && i < plan.PerProducer; k++ {
					r := mkRec(prng, pid, i)
					ev.IDs = append(ev.IDs, IDOf(r.Value))
					commit := ev.Commit
					cl.Produce(context.Background(), r, func(_ *kgo.Record, err error) {
						if err == nil && commit {
							produced.Add(1)
						}
					})
					i++
				}
				ctx, cancel := context.WithTimeout(context.Background(), watchdog)
				if err := cl.Flush(ctx); err != nil {
					cancel()
					inconcl("txn flush: " + err.Error())
					return
				}
				last := i >= plan.PerProducer
				if plan.LeaveOpenTxn && p == 0 && last {
					// keep this transaction open until the consumer side has been judged once
					openOnce.Do(func() { close(openTxnReady) })
					<-openTxnHold
				}
				ev.EndCallClock = w.tick()
				try := kgo.TryCommit
				if !ev.Commit {
					try = kgo.TryAbort
				}
				if err := cl.EndTransaction(ctx, try); err != nil {
					ev.EndErr = err.Error()
				}
				ev.EndRetClock = w.tick()
				cancel()
				txnMu.Lock()
				res.Txns = append(res.Txns, ev)
				txnMu.Unlock()
				if ev.EndErr != "" {
					inconcl("end txn: " + ev.EndErr)
					return
				}
			}
		}(p)
	}
	if !(plan.LeaveOpenTxn && plan.TxnProducers > 0) {
		openOnce.Do(func() { close(openTxnReady) })
	}

	// ---------------- consumer
	hook := &fhook{state: map[*kgo.Record]int{}, w: w}
	copts := []kgo.Opt{
		kgo.ClientID("vcons"),
		kgo.WithHooks(hook),
		kgo.FetchMaxWait(50 * time.Millisecond),
		kgo.RetryBackoffFn(func(n int) time.Duration { return time.Duration(1+n) * 2 * time.Millisecond }),
		kgo.MetadataMinAge(10 * time.Millisecond),
		kgo.ConsumeResetOffset(kgo.NewOffset().AtStart()),
	}
	if plan.ReadCommitted {
		copts = append(copts, kgo.FetchIsolationLevel(kgo.ReadCommitted()))
	}
	if plan.KeepControl {
		copts = append(copts, kgo.KeepControlRecords())
	}
	if plan.FetchMaxBytes > 0 {
		copts = append(copts, kgo.FetchMaxBytes(int32(plan.FetchMaxBytes)))
	}
	if plan.PartMaxBytes > 0 {
		copts = append(copts, kgo.FetchMaxPartitionBytes(int32(plan.PartMaxBytes)))
	}
	if plan.MaxConcFetches > 0 {
		copts = append(copts, kgo.MaxConcurrentFetches(plan.MaxConcFetches))
	}
	if plan.NoSessions {
		copts = append(copts, kgo.DisableFetchSessions())
	}
	if plan.Rack {
		copts = append(copts, kgo.Rack("r1"))
	}
	if plan.ByPartitions {
		m := map[string]map[int32]kgo.Offset{}
		for _, t := range topics {
			m[t] = map[int32]kgo.Offset{}
			for p := 0; p < plan.Partitions; p++ {
				m[t][int32(p)] = kgo.NewOffset().AtStart()
			}
		}
		copts = append(copts, kgo.ConsumePartitions(m))
	} else {
		copts = append(copts, kgo.ConsumeTopics(topics...))
	}
	cons, err := env.NewClient(copts...)
	if err != nil {
		res.Inconcl = append(res.Inconcl, "consumer client: "+err.Error())
		return res
	}
	var consClosed atomic.Bool
	defer func() {
		if !consClosed.Load() {
			cons.Close()
		}
	}()

	// side: leader moves and pauses
	sideCtx, sideCancel := context.WithCancel(context.Background())
	var side sync.WaitGroup
	side.Add(1)
	go func() {
		defer side.Done()
		mrng := rand.New(rand.NewPCG(plan.Seed, 41))
		moves, pauses := plan.LeaderMoves, plan.Pauses
		for sideCtx.Err() == nil && (moves > 0 || pauses > 0) {
			time.Sleep(time.Duration(1+mrng.IntN(20)) * time.Millisecond)
			if moves > 0 && mrng.IntN(2) == 0 {
				moves--
				env.C.MoveTopicPartition(topics[mrng.IntN(len(topics))], int32(mrng.IntN(plan.Partitions)), int32(mrng.IntN(plan.Brokers)))
				w.event("leader-move")
			} else if pauses > 0 {
				pauses--
				t := topics[mrng.IntN(len(topics))]
				if mrng.IntN(2) == 0 {
					cons.PauseFetchTopics(t)
					w.event("pause-topic")
					time.Sleep(time.Duration(1+mrng.IntN(15)) * time.Millisecond)
					cons.ResumeFetchTopics(t)
				} else {
					pp := map[string][]int32{t: {int32(mrng.IntN(plan.Partitions))}}
					cons.PauseFetchPartitions(pp)
					w.event("pause-partition")
					time.Sleep(time.Duration(1+mrng.IntN(15)) * time.Millisecond)
					cons.ResumeFetchPartitions(pp)
				}
			}
		}
	}()

	// poll loop
	prng := rand.New(rand.NewPCG(plan.Seed, 51))
	next := map[string]int64{} // highest returned offset + 1 per partition
	pollOnce := func(d time.Duration) int {
		ctx, cancel := context.WithTimeout(context.Background(), d)
		defer cancel()
		var fs kgo.Fetches
		if plan.PollRecordsMax > 0 && prng.IntN(3) != 0 {
			fs = cons.PollRecords(ctx, 1+prng.IntN(plan.PollRecordsMax))
		} else {
			fs = cons.PollFetches(ctx)
		}
		clk := w.tick()
		res.Polls++
		n := 0
		for _, fe := range fs.Errors() {
			if fe.Err == context.DeadlineExceeded || fe.Err == context.Canceled {
				continue
			}
			if len(res.FetchErrs) < 20 {
				res.FetchErrs = append(res.FetchErrs, fmt.Sprintf("%s/%d: %v", fe.Topic, fe.Partition, fe.Err))
			}
		}
		fs.EachRecord(func(r *kgo.Record) {
			n++
			res.Returned = append(res.Returned, Returned{Topic: r.Topic, Partition: r.Partition, Offset: r.Offset, ID: IDOf(r.Value), Control: r.Attrs.IsControl(), Poll: res.Polls, Clock: clk})
			k := tpKey(r.Topic, r.Partition)
			if r.Offset+1 > next[k] {
				next[k] = r.Offset + 1
			}
		})
		if plan.ProcessDelayMax > 0 && n > 0 {
			time.Sleep(time.Duration(prng.IntN(plan.ProcessDelayMax)) * time.Microsecond)
		}
		return n
	}

	prodDone := make(chan struct{})
	go func() { prodWG.Wait(); close(prodDone) }()

	readLogs := func() (map[string]*e2e.PartitionLog, error) {
		out := map[string]*e2e.PartitionLog{}
		ctx, cancel := context.WithTimeout(context.Background(), watchdog)
		defer cancel()
		for _, t := range topics {
			for p := 0; p < plan.Partitions; p++ {
				l, err := e2e.ReadLog(ctx, admin, t, int32(p))
				if err != nil {
					return nil, fmt.Errorf("read %s/%d: %w", t, p, err)
				}
				out[tpKey(t, int32(p))] = l
			}
		}
		return out, nil
	}
	// visibleEnd: the offset up to which the consumer must eventually get (HWM, or LSO under read_committed)
	caughtUp := func(logs map[string]*e2e.PartitionLog) bool {
		for k, l := range logs {
			end := l.HWM
			if plan.ReadCommitted {
				end = l.LSO
			}
			// find the last offset < end that the consumer is expected to return
			var lastVisible int64 = -1
			st := l.TxnStatus()
			for _, r := range l.Records {
				if r.Offset >= end {
					break
				}
				if r.Control && !plan.KeepControl {
					continue
				}
				if !r.Control && plan.ReadCommitted && st[r.Offset] == "aborted" {
					continue
				}
				lastVisible = r.Offset
			}
			if lastVisible >= 0 && next[k] <= lastVisible {
				return false
			}
		}
		return true
	}

	deadline := time.Now().Add(watchdog)
	// phase 1: consume while producers run (faults on)
	running, midDone := true, false
	for running && time.Now().Before(deadline) {
		pollOnce(100 * time.Millisecond)
		select {
		case <-prodDone:
			running = false
		case <-openTxnReady:
			// all other producers may still run; continue polling a bit then judge the open-txn snapshot
			if plan.LeaveOpenTxn && plan.TxnProducers > 0 && !midDone {
				midDone = true
				// poll a few more rounds so the consumer reaches the LSO
				for k := 0; k < 30; k++ {
					pollOnce(60 * time.Millisecond)
				}
				if logs, err := readLogs(); err == nil {
					res.LogsMid = logs
					res.MidCount = len(res.Returned)
				}
				close(openTxnHold)
			}
		default:
		}
	}
	if !midDone && plan.LeaveOpenTxn && plan.TxnProducers > 0 {
		select {
		case <-openTxnHold:
		default:
			close(openTxnHold)
		}
	}
	if running {
		res.Inconcl = append(res.Inconcl, "producers did not finish within the watchdog")
		res.Stacks = e2e.Stacks()
		select {
		case <-openTxnHold:
		default:
			close(openTxnHold)
		}
		sideCancel()
		side.Wait()
		return res
	}
	sideCancel()
	side.Wait()
	faultsOn.Store(false)
	res.ProducedTotal = int(produced.Load())

	// phase 2: drain (faults off) until caught up with the final log
	logs, err := readLogs()
	if err != nil {
		res.Inconcl = append(res.Inconcl, err.Error())
		return res
	}
	res.Logs = logs
	for !caughtUp(logs) && time.Now().Before(deadline) {
		pollOnce(100 * time.Millisecond)
	}
	res.Drained = caughtUp(logs)
	if !res.Drained {
		res.Stacks = e2e.Stacks()
	}
	// a few extra polls: nothing more may arrive (duplicates would show here)
	for k := 0; k < 3; k++ {
		pollOnce(30 * time.Millisecond)
	}

	// ---------------- hooks / gauges at a quiescent point
	res.HookBuffered, res.HookUnbuffered = hook.nb.Load(), hook.nu.Load()
	res.HookPolled, res.HookDiscarded = hook.np.Load(), hook.nd.Load()
	cons.Close()
	consClosed.Store(true)
	fs := cons.PollFetches(context.Background())
	if errs := fs.Errors(); len(errs) == 1 && errs[0].Err == kgo.ErrClientClosed {
		res.PollAfterClose = "ErrClientClosed"
	} else {
		res.PollAfterClose = fmt.Sprintf("%d errors, %d records", len(fs.Errors()), fs.NumRecords())
	}
	if plan.VT {
		e2e.Settle()
		res.HookChecked = true
		hook.mu.Lock()
		for _, st := range hook.state {
			if st == 1 {
				res.HookUnpaired++
			}
		}
		hook.mu.Unlock()
		res.GaugeRecs, res.GaugeBytes = cons.BufferedFetchRecords(), cons.BufferedFetchBytes()
		res.GaugeSampled = true
		res.HookBuffered, res.HookUnbuffered = hook.nb.Load(), hook.nu.Load()
		res.HookPolled, res.HookDiscarded = hook.np.Load(), hook.nd.Load()
	}
	return res
}
