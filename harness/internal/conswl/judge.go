package conswl

import (
	"fmt"
	"math/rand/v2"
	"sort"
	"strings"
)

// GenPlan draws a seeded consumer scenario. txn: include transactional
// producers; rc: read_committed.
func GenPlan(rng *rand.Rand, seed uint64, vt, txn bool) Plan {
	p := Plan{
		Seed: seed, VT: vt, Brokers: 1 + rng.IntN(3), Topics: 1 + rng.IntN(2), Partitions: 1 + rng.IntN(4),
		PlainProducers: 1 + rng.IntN(2), PerProducer: 150 + rng.IntN(350), ValueMax: 10 + rng.IntN(150),
		Compression:    []string{"none", "gzip", "snappy", "lz4", "zstd"}[rng.IntN(5)],
		FetchMaxBytes:  []int{0, 0, 2000, 600}[rng.IntN(4)],
		PartMaxBytes:   []int{0, 0, 900, 300}[rng.IntN(4)],
		MaxConcFetches: []int{0, 0, 1, 2}[rng.IntN(4)],
		PollRecordsMax: []int{0, 1, 3, 7}[rng.IntN(4)],
		NoSessions:     rng.IntN(5) == 0,
		SessionSlots:   []int{0, 0, 1, 2}[rng.IntN(4)],
		Pauses:         []int{0, 3, 10}[rng.IntN(3)],
		ByPartitions:   rng.IntN(2) == 0,
		Rack:           rng.IntN(4) == 0,
		Yield:          []int{0, 20, 50}[rng.IntN(3)],
		ProcessDelayMax: []int{0, 0, 500}[rng.IntN(3)],
		KillBeforeP: []float64{0, 0.03, 0.1}[rng.IntN(3)], KillAfterP: []float64{0, 0.03, 0.1}[rng.IntN(3)],
		SessionErrP: []float64{0, 0.03, 0.1}[rng.IntN(3)], PartErrP: []float64{0, 0.03, 0.1}[rng.IntN(3)],
		DelayP: []float64{0, 0.05}[rng.IntN(2)], MetaKillP: []float64{0, 0.05}[rng.IntN(2)],
		LeaderMoves: []int{0, 2, 6}[rng.IntN(3)],
	}
	if txn {
		p.TxnProducers = 1 + rng.IntN(3)
		p.TxnSize = 1 + rng.IntN(12)
		p.AbortP = []float64{0.2, 0.5}[rng.IntN(2)]
		p.ReadCommitted = rng.IntN(4) != 0
		p.KeepControl = rng.IntN(4) == 0
		p.LeaveOpenTxn = rng.IntN(2) == 0
	} else if rng.IntN(4) == 0 {
		p.ReadCommitted = true
	}
	if vt {
		// No leader moves in virtual time: after NOT_LEADER with KIP-951 leader hints the fetch loop
		// retries without a blocking point until a metadata refresh that is gated by a timer
		// (MetadataMinAge); inside a bubble that timer can never fire while the loop spins, so the
		// bubble live-locks (and leaks a goroutine per iteration). Real-time scenarios keep moves.
		p.LeaderMoves = 0
		p.Yield = 0
		if p.Compression == "zstd" {
			p.Compression = "lz4"
		}
	}
	return p
}

// Violation is one oracle finding.
type Violation struct {
	Sig    string
	Detail string
}

// Expected returns, per partition, the offsets of the records a consumer with
// this plan must return (data records only; control records are not part of
// the order oracle), from the final log.
func (res *Result) expected() map[string][]int64 {
	out := map[string][]int64{}
	for k, l := range res.Logs {
		st := l.TxnStatus()
		for _, r := range l.Records {
			if r.Control {
				continue
			}
			if res.Plan.ReadCommitted && st[r.Offset] != "committed" && st[r.Offset] != "plain" {
				continue
			}
			out[k] = append(out[k], r.Offset)
		}
	}
	return out
}

// JudgeOrder is the C04 oracle: per partition the returned data records are
// strictly increasing in offset, are all expected-visible records, skip no
// visible record (prefix while running), and equal the expected list after a
// completed drain.
func (res *Result) JudgeOrder() (vs []Violation, complete bool) {
	exp := res.expected()
	got := map[string][]int64{}
	for _, r := range res.Returned {
		if r.Control {
			continue
		}
		k := tpKey(r.Topic, r.Partition)
		got[k] = append(got[k], r.Offset)
	}
	complete = res.Drained
	for k, g := range got {
		e := exp[k]
		for i := 1; i < len(g); i++ {
			if g[i] <= g[i-1] {
				kind := "reordered"
				if g[i] == g[i-1] || contains(g[:i], g[i]) {
					kind = "duplicate"
				}
				vs = append(vs, Violation{"returned-" + kind + "-record", fmt.Sprintf("%s: offset %d returned after %d (index %d)", k, g[i], g[i-1], i)})
				break
			}
		}
		// prefix check against expected
		n := len(g)
		if n > len(e) {
			n = len(e)
		}
		for i := 0; i < n; i++ {
			if g[i] != e[i] {
				if g[i] > e[i] {
					vs = append(vs, Violation{"skipped-visible-record", fmt.Sprintf("%s: expected offset %d next but got %d (index %d)", k, e[i], g[i], i)})
				} else {
					vs = append(vs, Violation{"returned-record-that-should-be-skipped", fmt.Sprintf("%s: got offset %d, next expected %d (index %d)", k, g[i], e[i], i)})
				}
				break
			}
		}
		if len(g) > len(e) {
			vs = append(vs, Violation{"returned-more-than-log-holds", fmt.Sprintf("%s: returned %d records, log holds %d visible", k, len(g), len(e))})
		}
	}
	if res.Drained {
		for k, e := range exp {
			if len(got[k]) < len(e) {
				vs = append(vs, Violation{"visible-record-never-returned", fmt.Sprintf("%s: %d of %d visible records returned after drain; first missing offset %d", k, len(got[k]), len(e), e[len(got[k])])})
			}
		}
	}
	if !res.Plan.KeepControl {
		for _, r := range res.Returned {
			if r.Control {
				vs = append(vs, Violation{"control-record-returned", fmt.Sprintf("%s/%d@%d is a control record", r.Topic, r.Partition, r.Offset)})
				break
			}
		}
	}
	return vs, complete
}

func contains(s []int64, v int64) bool {
	for _, x := range s {
		if x == v {
			return true
		}
	}
	return false
}

// JudgeCommitted is the C05 safety oracle for read_committed plans.
func (res *Result) JudgeCommitted() (vs []Violation) {
	if !res.Plan.ReadCommitted {
		return nil
	}
	status := map[string]map[int64]string{}
	for k, l := range res.Logs {
		status[k] = l.TxnStatus()
	}
	for _, r := range res.Returned {
		if r.Control {
			continue
		}
		if st := status[tpKey(r.Topic, r.Partition)][r.Offset]; st == "aborted" || st == "open" {
			vs = append(vs, Violation{"read-committed-returned-" + st + "-record", fmt.Sprintf("%s/%d@%d id=%s is %s in the final log", r.Topic, r.Partition, r.Offset, r.ID, st)})
			break
		}
	}
	// snapshot taken while a transaction was still open: nothing returned so far may be open there
	if res.LogsMid != nil {
		mid := map[string]map[int64]string{}
		for k, l := range res.LogsMid {
			mid[k] = l.TxnStatus()
		}
		for _, r := range res.Returned[:res.MidCount] {
			if r.Control {
				continue
			}
			if mid[tpKey(r.Topic, r.Partition)][r.Offset] == "open" {
				vs = append(vs, Violation{"read-committed-returned-open-transaction-record", fmt.Sprintf("%s/%d@%d id=%s was returned while its transaction had no marker yet", r.Topic, r.Partition, r.Offset, r.ID)})
				break
			}
		}
	}
	// returned before the commit was even requested
	endCall := map[string]int64{}
	for _, t := range res.Txns {
		if t.Commit {
			for _, id := range t.IDs {
				endCall[id] = t.EndCallClock
			}
		}
	}
	for _, r := range res.Returned {
		if c, ok := endCall[r.ID]; ok && r.Clock < c {
			vs = append(vs, Violation{"read-committed-returned-record-before-commit-requested", fmt.Sprintf("%s/%d@%d id=%s returned at clock %d, EndTransaction(commit) called at %d", r.Topic, r.Partition, r.Offset, r.ID, r.Clock, c)})
			break
		}
	}
	return vs
}

// Shape summarises what happened, for distinctness keys.
func (res *Result) Shape() (key string, nontrivial bool) {
	var ev []string
	for k, n := range res.Events {
		if n > 0 {
			ev = append(ev, k)
		}
	}
	for k, n := range res.Fired {
		if k != "pass" && n > 0 {
			ev = append(ev, "f:"+k)
		}
	}
	sort.Strings(ev)
	p := res.Plan
	key = fmt.Sprintf("rc=%v|txn=%d|prm=%d|sess=%v/%d|byp=%v|rack=%v|%s", p.ReadCommitted, p.TxnProducers, p.PollRecordsMax, p.NoSessions, p.SessionSlots, p.ByPartitions, p.Rack, strings.Join(ev, ","))
	return key, len(ev) > 0 && len(res.Returned) > 0
}
