// Package e2e holds the shared end-to-end scaffolding: a kfake cluster behind
// faultnet (real loopback TCP, or kfake.VirtualNetwork inside a synctest
// bubble), an independent log reader for ground truth, the delay injector for
// the verifPoint hooks, and unique record ids.
package e2e

import (
	"context"
	"fmt"
	"hash/fnv"
	"math/rand/v2"
	"runtime"
	"sync"
	"sync/atomic"
	"time"

	"github.com/twmb/franz-go/pkg/kfake"
	"github.com/twmb/franz-go/pkg/kgo"

	"verifharness/internal/faultnet"
)

// Env is one kfake cluster with a fault-injecting network in front of it.
type Env struct {
	VT  bool
	VN  *kfake.VirtualNetwork
	Net *faultnet.Net
	C   *kfake.Cluster
}

var vtPort atomic.Int32

// NewEnv starts a cluster of n brokers. With vt the cluster listens on a
// kfake.VirtualNetwork (for synctest bubbles), otherwise on loopback TCP.
func NewEnv(vt bool, n int, fn *faultnet.Net, opts ...kfake.Opt) (*Env, error) {
	e := &Env{VT: vt, Net: fn}
	if e.Net == nil {
		e.Net = &faultnet.Net{}
	}
	all := []kfake.Opt{kfake.NumBrokers(n)}
	if vt {
		e.VN = new(kfake.VirtualNetwork)
		e.Net.Inner = e.VN.Listen
		var ports []int
		for i := 0; i < n; i++ {
			ports = append(ports, 20000+int(vtPort.Add(1)))
		}
		all = append(all, kfake.Ports(ports...))
	}
	all = append(all, kfake.ListenFn(e.Net.Listen))
	all = append(all, opts...)
	c, err := kfake.NewCluster(all...)
	if err != nil {
		return nil, err
	}
	e.C = c
	return e, nil
}

// ClientOpts returns the options every client of this env needs.
func (e *Env) ClientOpts() []kgo.Opt {
	o := []kgo.Opt{kgo.SeedBrokers(e.C.ListenAddrs()...)}
	if e.VT {
		o = append(o, kgo.Dialer(e.VN.DialContext))
	}
	return o
}

// NewClient builds a client with the env's options first.
func (e *Env) NewClient(opts ...kgo.Opt) (*kgo.Client, error) {
	return kgo.NewClient(append(e.ClientOpts(), opts...)...)
}

func (e *Env) Close() { e.C.Close() }

// RID is a unique record identity carried in the record value.
func RID(client, seq int) string { return fmt.Sprintf("%d:%d", client, seq) }

// Yield is the delay injector installed into kgo's verifPoint hooks. Per hit
// it decides, from hash(seed, point, hit#), among: nothing, Gosched, a few
// Gosched spins, or a short sleep. Hit counts per point are kept.
type Yield struct {
	seed  uint64
	level uint64 // 0..100: percentage of hits that perturb
	mu    sync.Mutex
	hits  map[string]*atomic.Int64
	n     atomic.Uint64
	vt    bool
}

func NewYield(seed uint64, level int, vt bool) *Yield {
	return &Yield{seed: seed, level: uint64(level), hits: map[string]*atomic.Int64{}, vt: vt}
}

func (y *Yield) Install() { kgo.VerifSetPointFn(y.point) }
func Uninstall()          { kgo.VerifSetPointFn(nil) }

func (y *Yield) point(name string) {
	y.mu.Lock()
	c := y.hits[name]
	if c == nil {
		c = new(atomic.Int64)
		y.hits[name] = c
	}
	y.mu.Unlock()
	hit := c.Add(1)
	h := fnv.New64a()
	fmt.Fprintf(h, "%d/%s/%d", y.seed, name, hit)
	v := h.Sum64()
	if v%100 >= y.level {
		return
	}
	switch (v / 100) % 8 {
	case 0, 1, 2:
		runtime.Gosched()
	case 3, 4:
		for i := 0; i < int((v/1000)%8)+2; i++ {
			runtime.Gosched()
		}
	case 5, 6:
		time.Sleep(time.Duration(10+(v/1000)%200) * time.Microsecond)
	case 7:
		time.Sleep(time.Duration(200+(v/1000)%1800) * time.Microsecond)
	}
}

// Hits returns the per-point hit counts.
func (y *Yield) Hits() map[string]int64 {
	y.mu.Lock()
	defer y.mu.Unlock()
	m := map[string]int64{}
	for k, v := range y.hits {
		m[k] = v.Load()
	}
	return m
}

// Jitter sleeps a small random duration or yields (workload-side perturbation).
func Jitter(rng *rand.Rand, maxMicros int) {
	switch rng.IntN(4) {
	case 0:
	case 1:
		runtime.Gosched()
	default:
		time.Sleep(time.Duration(rng.IntN(maxMicros+1)) * time.Microsecond)
	}
}

// WaitOrTimeout waits for ch, returning false if d elapsed first.
func WaitOrTimeout(ch <-chan struct{}, d time.Duration) bool {
	t := time.NewTimer(d)
	defer t.Stop()
	select {
	case <-ch:
		return true
	case <-t.C:
		return false
	}
}

// Stacks returns all goroutine stacks (for inconclusive/violation witnesses).
func Stacks() string {
	buf := make([]byte, 4<<20)
	return string(buf[:runtime.Stack(buf, true)])
}

var _ = context.Background
