package e2e

import (
	"context"
	"errors"
	"fmt"
	"hash/crc32"

	"github.com/twmb/franz-go/pkg/kerr"
	"github.com/twmb/franz-go/pkg/kgo"
	"github.com/twmb/franz-go/pkg/kmsg"
)

// LogRecord is one record (data or control) of a partition log as stored by
// the broker, read back with a raw Fetch (read_uncommitted) and decoded batch
// by batch - independent of kgo's consumer code path.
type LogRecord struct {
	Offset        int64
	Key, Value    []byte
	Headers       []kmsg.Header
	Timestamp     int64
	ProducerID    int64
	ProducerEpoch int16
	Sequence      int32 // first sequence of the batch + index
	Transactional bool
	Control       bool
	ControlType   int16 // 0 abort, 1 commit (Control only)
	BatchBase     int64
}

// PartitionLog is the ground truth of one partition.
type PartitionLog struct {
	Topic     string
	Partition int32
	LogStart  int64
	HWM       int64
	LSO       int64
	Records   []LogRecord
}

// TxnStatus classifies every data record of the log: committed (or
// non-transactional), aborted, or open (no marker yet).
func (l *PartitionLog) TxnStatus() (status map[int64]string) {
	status = map[int64]string{}
	type key struct {
		pid   int64
		epoch int16
	}
	open := map[key][]int64{}
	for _, r := range l.Records {
		k := key{r.ProducerID, r.ProducerEpoch}
		switch {
		case r.Control:
			st := "committed"
			if r.ControlType == 0 {
				st = "aborted"
			}
			// a marker ends the open transaction of this pid (any epoch <= marker epoch)
			for ok, offs := range open {
				if ok.pid == r.ProducerID && ok.epoch <= r.ProducerEpoch {
					for _, o := range offs {
						status[o] = st
					}
					delete(open, ok)
				}
			}
		case r.Transactional:
			open[k] = append(open[k], r.Offset)
			status[r.Offset] = "open"
		default:
			status[r.Offset] = "plain"
		}
	}
	return status
}

// ReadLog reads the whole log of one partition from its current leader.
func ReadLog(ctx context.Context, cl *kgo.Client, topic string, partition int32) (*PartitionLog, error) {
	var lastErr error
	for attempt := 0; attempt < 20; attempt++ {
		l, err := readLogOnce(ctx, cl, topic, partition)
		if err == nil {
			return l, nil
		}
		lastErr = err
		if ctx.Err() != nil {
			break
		}
	}
	return nil, lastErr
}

func readLogOnce(ctx context.Context, cl *kgo.Client, topic string, partition int32) (*PartitionLog, error) {
	mreq := kmsg.NewPtrMetadataRequest()
	mt := kmsg.NewMetadataRequestTopic()
	mt.Topic = kmsg.StringPtr(topic)
	mreq.Topics = append(mreq.Topics, mt)
	mresp, err := mreq.RequestWith(ctx, cl)
	if err != nil {
		return nil, err
	}
	var leader int32 = -1
	var topicID [16]byte
	for _, t := range mresp.Topics {
		if t.Topic == nil || *t.Topic != topic {
			continue
		}
		if err := kerr.ErrorForCode(t.ErrorCode); err != nil {
			return nil, err
		}
		topicID = t.TopicID
		for _, p := range t.Partitions {
			if p.Partition == partition {
				leader = p.Leader
			}
		}
	}
	if leader < 0 {
		return nil, fmt.Errorf("no leader for %s/%d", topic, partition)
	}
	br := cl.Broker(int(leader))

	out := &PartitionLog{Topic: topic, Partition: partition}
	// earliest offset
	lreq := kmsg.NewPtrListOffsetsRequest()
	lreq.ReplicaID = -1
	lt := kmsg.NewListOffsetsRequestTopic()
	lt.Topic = topic
	lp := kmsg.NewListOffsetsRequestTopicPartition()
	lp.Partition = partition
	lp.Timestamp = -2
	lp.CurrentLeaderEpoch = -1
	lt.Partitions = append(lt.Partitions, lp)
	lreq.Topics = append(lreq.Topics, lt)
	lr, err := br.Request(ctx, lreq)
	if err != nil {
		return nil, err
	}
	lresp := lr.(*kmsg.ListOffsetsResponse)
	if len(lresp.Topics) != 1 || len(lresp.Topics[0].Partitions) != 1 {
		return nil, errors.New("bad list offsets response")
	}
	if err := kerr.ErrorForCode(lresp.Topics[0].Partitions[0].ErrorCode); err != nil {
		return nil, err
	}
	out.LogStart = lresp.Topics[0].Partitions[0].Offset

	next := out.LogStart
	for {
		freq := kmsg.NewPtrFetchRequest()
		freq.ReplicaID = -1
		freq.MaxWaitMillis = 0
		freq.MinBytes = 0
		freq.MaxBytes = 64 << 20
		freq.IsolationLevel = 0
		freq.SessionEpoch = -1
		ft := kmsg.NewFetchRequestTopic()
		ft.Topic = topic
		ft.TopicID = topicID
		fp := kmsg.NewFetchRequestTopicPartition()
		fp.Partition = partition
		fp.FetchOffset = next
		fp.CurrentLeaderEpoch = -1
		fp.PartitionMaxBytes = 64 << 20
		ft.Partitions = append(ft.Partitions, fp)
		freq.Topics = append(freq.Topics, ft)
		fr, err := br.Request(ctx, freq)
		if err != nil {
			return nil, err
		}
		fresp := fr.(*kmsg.FetchResponse)
		if err := kerr.ErrorForCode(fresp.ErrorCode); err != nil {
			return nil, err
		}
		if len(fresp.Topics) != 1 || len(fresp.Topics[0].Partitions) != 1 {
			return nil, errors.New("bad fetch response")
		}
		rp := &fresp.Topics[0].Partitions[0]
		if err := kerr.ErrorForCode(rp.ErrorCode); err != nil {
			return nil, err
		}
		out.HWM = rp.HighWatermark
		out.LSO = rp.LastStableOffset
		recs, consumed, err := DecodeBatches(rp.RecordBatches)
		if err != nil {
			return nil, err
		}
		_ = consumed
		progressed := false
		for _, r := range recs {
			if r.Offset >= next {
				out.Records = append(out.Records, r)
				next = r.Offset + 1
				progressed = true
			}
		}
		if next >= out.HWM || !progressed {
			break
		}
	}
	return out, nil
}

var crc32c = crc32.MakeTable(crc32.Castagnoli)

// One process-wide decompressor, created outside any synctest bubble. (kgo's
// zstd decoder pool attaches a finalizer that closes a channel; a decoder
// created inside a bubble and finalized outside it is a fatal runtime error,
// so virtual-time scenarios never use zstd.)
var decomp = kgo.DefaultDecompressor()

// DecodeBatches decodes a sequence of v2 record batches (as kfake stores only
// v2). A truncated trailing batch is ignored. The CRC of every batch is
// verified.
func DecodeBatches(in []byte) (out []LogRecord, consumed int, err error) {
	for len(in) >= 12 {
		length := int(int32(uint32(in[8])<<24 | uint32(in[9])<<16 | uint32(in[10])<<8 | uint32(in[11])))
		if length < 49 || len(in) < 12+length {
			break
		}
		raw := in[:12+length]
		var b kmsg.RecordBatch
		if err := b.ReadFrom(raw); err != nil {
			return out, consumed, fmt.Errorf("batch decode: %w", err)
		}
		if b.Magic != 2 {
			return out, consumed, fmt.Errorf("unexpected magic %d", b.Magic)
		}
		if got := crc32.Checksum(raw[21:], crc32c); got != uint32(b.CRC) {
			return out, consumed, fmt.Errorf("batch at offset %d: crc mismatch", b.FirstOffset)
		}
		payload := b.Records
		if codec := b.Attributes & 7; codec != 0 {
			payload, err = decomp.Decompress(payload, kgo.CompressionCodecType(codec))
			if err != nil {
				return out, consumed, fmt.Errorf("decompress: %w", err)
			}
		}
		transactional := b.Attributes&0x10 != 0
		control := b.Attributes&0x20 != 0
		for i := int32(0); i < b.NumRecords; i++ {
			var r kmsg.Record
			// each record is varint length prefixed
			l, n := varint(payload)
			if n <= 0 || l < 0 || int(l)+n > len(payload) {
				return out, consumed, fmt.Errorf("record %d of batch %d: bad length", i, b.FirstOffset)
			}
			if err := r.ReadFrom(payload[:n+int(l)]); err != nil {
				return out, consumed, fmt.Errorf("record decode: %w", err)
			}
			payload = payload[n+int(l):]
			lr := LogRecord{
				Offset: b.FirstOffset + int64(r.OffsetDelta), Key: r.Key, Value: r.Value, Headers: r.Headers,
				Timestamp: b.FirstTimestamp + r.TimestampDelta64, ProducerID: b.ProducerID, ProducerEpoch: b.ProducerEpoch,
				Sequence: b.FirstSequence + r.OffsetDelta, Transactional: transactional, Control: control, BatchBase: b.FirstOffset,
			}
			if control && len(r.Key) >= 4 {
				lr.ControlType = int16(r.Key[2])<<8 | int16(r.Key[3])
			}
			out = append(out, lr)
		}
		in = in[12+length:]
		consumed += 12 + length
	}
	return out, consumed, nil
}

func varint(in []byte) (int32, int) {
	var x uint32
	for i := 0; i < 5 && i < len(in); i++ {
		x |= uint32(in[i]&0x7f) << (7 * uint(i))
		if in[i]&0x80 == 0 {
			return int32(x>>1) ^ -int32(x&1), i + 1
		}
	}
	return 0, 0
}
