//go:build !synctests

package e2e

import "testing"

const HaveVT = false

func Bubble(t *testing.T, fn func()) string { panic("built without the synctests tag") }
func Settle()                                { panic("built without the synctests tag") }
func BubbleGoroutines() []string             { return nil }
