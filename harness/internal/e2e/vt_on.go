//go:build synctests

package e2e

import (
	"fmt"
	"regexp"
	"strings"
	"testing"
	"testing/synctest"
)

// HaveVT reports whether this binary was built with the synctests tag
// (channel-based mutexes in kgo, so synctest bubbles can advance time).
const HaveVT = true

// Bubble runs fn inside a testing/synctest bubble. It returns a non-empty
// message if the bubble deadlocked ("all goroutines in bubble are blocked")
// or leaked goroutines ("main bubble goroutine has exited but blocked
// goroutines remain"), or fn panicked.
func Bubble(t *testing.T, fn func()) (failure string) {
	defer func() {
		if p := recover(); p != nil {
			failure = fmt.Sprint(p)
		}
	}()
	synctest.Test(t, func(*testing.T) { fn() })
	return ""
}

// Settle blocks until every other goroutine of the bubble is durably blocked.
func Settle() { synctest.Wait() }

var bubbleHdr = regexp.MustCompile(`(?m)^goroutine \d+ \[[^\]]*synctest bubble \d+[^\]]*\]:$`)

// BubbleGoroutines returns the stacks of the goroutines that belong to a
// synctest bubble (call from inside the bubble, after Settle).
func BubbleGoroutines() []string {
	var out []string
	for _, g := range strings.Split(Stacks(), "\n\n") {
		if bubbleHdr.MatchString(g) {
			out = append(out, g)
		}
	}
	return out
}
