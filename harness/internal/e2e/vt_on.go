//go:build synctests

package e2e

import (
	"fmt"
	"regexp"
	"strings"
	"testing"
	"testing/synctest"
)

// HaveVT reports whether this binary was built with the synctests tag
// (channel-based mutexes in kgo, so synctest bubbles can advance time).
const HaveVT = true

// Bubble runs fn inside a testing/synctest bubble. It returns a non-empty
// message if the bubble deadlocked ("all goroutines in bubble are blocked")
// or leaked goroutines ("main bubble goroutine has exited but blocked
// goroutines remain"), or fn panicked.
func Bubble(t *testing.T, fn func()) (failure string) {
	defer func() {
		if p := recover(); p != nil {
			failure = fmt.Sprint(p)
		}
	}()
	synctest.Test(t, func(*testing.T) { fn() })
	return ""
}

// Settle blocks until every other goroutine of the bubble is durably blocked.
func Settle() { synctest.Wait() }

var bubbleHdr = regexp.MustCompile(`(?m)^goroutine \d+ \[[^\]]*synctest bubble (\d+)[^\]]*\]:$`)

// BubbleGoroutines returns the stacks of the goroutines that belong to the
// CALLER's synctest bubble (call from inside the bubble, after Settle).
// Goroutines of other (earlier, possibly abandoned) bubbles are ignored.
func BubbleGoroutines() []string {
	var out []string
	gs := strings.Split(Stacks(), "\n\n")
	if len(gs) == 0 {
		return nil
	}
	m := bubbleHdr.FindStringSubmatch(gs[0]) // the first stack is the calling goroutine
	if m == nil {
		return nil
	}
	mine := m[1]
	for _, g := range gs[1:] {
		if mm := bubbleHdr.FindStringSubmatch(g); mm != nil && mm[1] == mine {
			out = append(out, g)
		}
	}
	return out
}
