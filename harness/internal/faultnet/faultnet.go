// Package faultnet wraps the listeners kfake accepts on (kfake.ListenFn) with
// frame-aware connections: it parses the client->broker byte stream into
// request frames, sees every broker->client response as one Write (kfake
// writes each response with a single conn.Write and handles requests of one
// connection serially), records every request in an event log, and applies a
// per-request fault decision:
//
//	Pass        deliver normally
//	KillBefore  close the connection before kfake sees the request
//	KillAfter   let kfake handle it, swallow the response, close (ambiguous outcome)
//	Truncate    write only the first K bytes of the response, close
//	Delay       sleep D before delivering the response
//	Corrupt     flip bytes in the response body (after the size prefix)
//	Rewrite     pass the response frame through Action.Rewrite (see RewriteBody)
//	DelayBefore sleep D before kfake sees the request (the broker has not acted yet)
package faultnet

import (
	"encoding/binary"
	"errors"
	"io"
	"net"
	"sync"
	"sync/atomic"
	"time"

	"github.com/twmb/franz-go/pkg/kmsg"
)

type Kind int

const (
	Pass Kind = iota
	KillBefore
	KillAfter
	Truncate
	Delay
	Corrupt
	Rewrite
	DelayBefore
)

func (k Kind) String() string {
	return [...]string{"pass", "kill-before", "kill-after", "truncate", "delay", "corrupt", "rewrite", "delay-before"}[k]
}

// Action is the decision for one request.
type Action struct {
	Kind Kind
	K    int           // Truncate: bytes of the response to deliver
	D    time.Duration // Delay
	// Rewrite: receives the complete response frame kfake wrote (size prefix
	// included) and returns the frame to deliver instead.
	Rewrite func(frame []byte) []byte
}

// RewriteBody decodes the response in frame (a complete response frame for
// request r), lets mutate change it, and returns the re-encoded frame. If
// the frame cannot be decoded it is returned unchanged.
func RewriteBody(r *Req, frame []byte, mutate func(kmsg.Response)) []byte {
	kreq := kmsg.RequestForKey(r.Key)
	if kreq == nil || len(frame) < 8 {
		return frame
	}
	kreq.SetVersion(r.Version)
	resp := kreq.ResponseKind()
	resp.SetVersion(r.Version)
	hdr := 8
	if resp.IsFlexible() && r.Key != 18 { // the ApiVersions response header is never flexible
		hdr = 9
	}
	if len(frame) < hdr {
		return frame
	}
	if err := resp.ReadFrom(frame[hdr:]); err != nil {
		return frame
	}
	mutate(resp)
	out := append([]byte(nil), frame[:hdr]...)
	out = resp.AppendTo(out)
	binary.BigEndian.PutUint32(out, uint32(len(out)-4))
	return out
}

// Req describes one request frame seen on a connection.
type Req struct {
	Seq      int64 // global arrival order across all connections
	Listener int   // index of the listener (= broker index in kfake's port order)
	Conn     int64
	Key      int16
	Version  int16
	Corr     int32
	ClientID string
	Nth      int // nth request of this key seen by this Net (0-based)
	Frame    []byte
	body     []byte // after the request header
	flexible bool
}

// Decode parses the request body with kmsg (nil if it cannot be parsed).
func (r *Req) Decode() kmsg.Request {
	k := kmsg.RequestForKey(r.Key)
	if k == nil {
		return nil
	}
	k.SetVersion(r.Version)
	if err := k.ReadFrom(r.body); err != nil {
		return nil
	}
	return k
}

// Event is one logged decision.
type Event struct {
	Req    *Req
	Action Action
	// RespLen is the response frame length, filled once the response was
	// written by kfake (0 if the connection died first).
	RespLen int
	// Resp is the response frame kfake wrote (only with KeepFrames).
	Resp []byte
}

// Net is a set of wrapped listeners sharing one rule function and log.
type Net struct {
	// Decide is called for every request frame before kfake sees it. It
	// must be safe for concurrent use. Nil means Pass.
	Decide func(*Req) Action
	// Tap, if set, is called for every request frame (observation only).
	Tap func(*Req)
	// Inner listen function (net.Listen by default; kfake.VirtualNetwork.Listen for virtual time).
	Inner func(network, address string) (net.Listener, error)
	// Sleep is used for Delay (time.Sleep by default; virtual inside a bubble).
	KeepFrames bool

	mu        sync.Mutex
	events    []*Event
	perKey    map[int16]int
	listeners int
	seq       atomic.Int64
	connSeq   atomic.Int64
	counts    [8]atomic.Int64
	conns     map[*conn]struct{}
}

// Listen is the function to give to kfake.ListenFn.
func (n *Net) Listen(network, address string) (net.Listener, error) {
	inner := n.Inner
	if inner == nil {
		inner = net.Listen
	}
	l, err := inner(network, address)
	if err != nil {
		return nil, err
	}
	n.mu.Lock()
	idx := n.listeners
	n.listeners++
	n.mu.Unlock()
	return &listener{Listener: l, n: n, idx: idx}, nil
}

// Events returns a snapshot of the log.
func (n *Net) Events() []*Event {
	n.mu.Lock()
	defer n.mu.Unlock()
	return append([]*Event(nil), n.events...)
}

// Fired returns how many times each action kind was applied.
func (n *Net) Fired() map[string]int64 {
	m := map[string]int64{}
	for k := Pass; k <= DelayBefore; k++ {
		if c := n.counts[k].Load(); c > 0 {
			m[k.String()] = c
		}
	}
	return m
}

// KillAll closes every live connection (clients see a disconnect).
func (n *Net) KillAll() {
	n.mu.Lock()
	cs := make([]*conn, 0, len(n.conns))
	for c := range n.conns {
		cs = append(cs, c)
	}
	n.mu.Unlock()
	for _, c := range cs {
		c.Conn.Close()
	}
}

type listener struct {
	net.Listener
	n   *Net
	idx int
}

func (l *listener) Accept() (net.Conn, error) {
	c, err := l.Listener.Accept()
	if err != nil {
		return nil, err
	}
	w := &conn{Conn: c, n: l.n, listener: l.idx, id: l.n.connSeq.Add(1)}
	l.n.mu.Lock()
	if l.n.conns == nil {
		l.n.conns = map[*conn]struct{}{}
	}
	l.n.conns[w] = struct{}{}
	l.n.mu.Unlock()
	return w, nil
}

type conn struct {
	net.Conn
	n        *Net
	listener int
	id       int64

	rmu     sync.Mutex
	in      []byte
	out     []byte
	tmp     [16 << 10]byte
	pmu     sync.Mutex
	pending []*Event // requests delivered to kfake that still await their response
}

var errKilled = errors.New("faultnet: connection killed")

func (c *conn) Close() error {
	c.n.mu.Lock()
	delete(c.n.conns, c)
	c.n.mu.Unlock()
	return c.Conn.Close()
}

func (c *conn) Read(p []byte) (int, error) {
	c.rmu.Lock()
	defer c.rmu.Unlock()
	for len(c.out) == 0 {
		n, err := c.Conn.Read(c.tmp[:])
		if n > 0 {
			c.in = append(c.in, c.tmp[:n]...)
			for len(c.in) >= 4 {
				l := int(binary.BigEndian.Uint32(c.in))
				if l < 0 || l > 1<<30 || len(c.in) < 4+l {
					break
				}
				frame := c.in[:4+l]
				if kill := c.onRequest(frame); kill {
					c.Conn.Close()
					return 0, io.EOF
				}
				c.out = append(c.out, frame...)
				c.in = c.in[4+l:]
			}
		}
		if err != nil {
			if len(c.out) > 0 {
				break
			}
			return 0, err
		}
	}
	n := copy(p, c.out)
	c.out = c.out[n:]
	return n, nil
}

func (c *conn) onRequest(frame []byte) (kill bool) {
	if len(frame) < 4+8 {
		return false
	}
	r := &Req{
		Seq: c.n.seq.Add(1), Listener: c.listener, Conn: c.id,
		Key:     int16(binary.BigEndian.Uint16(frame[4:])),
		Version: int16(binary.BigEndian.Uint16(frame[6:])),
		Corr:    int32(binary.BigEndian.Uint32(frame[8:])),
	}
	// request header: client id (nullable string), then tagged fields if flexible
	body := frame[12:]
	if len(body) >= 2 {
		l := int(int16(binary.BigEndian.Uint16(body)))
		body = body[2:]
		if l > 0 && l <= len(body) {
			r.ClientID = string(body[:l])
			body = body[l:]
		}
	}
	if k := kmsg.RequestForKey(r.Key); k != nil {
		k.SetVersion(r.Version)
		if k.IsFlexible() && len(body) > 0 {
			// tagged fields: we only ever see an empty section (one 0 byte) from kgo
			if body[0] == 0 {
				body = body[1:]
			}
		}
	}
	r.body = append([]byte(nil), body...)
	if c.n.KeepFrames {
		r.Frame = append([]byte(nil), frame...)
	}
	c.n.mu.Lock()
	if c.n.perKey == nil {
		c.n.perKey = map[int16]int{}
	}
	r.Nth = c.n.perKey[r.Key]
	c.n.perKey[r.Key]++
	c.n.mu.Unlock()
	if c.n.Tap != nil {
		c.n.Tap(r)
	}
	var a Action
	if c.n.Decide != nil {
		a = c.n.Decide(r)
	}
	ev := &Event{Req: r, Action: a}
	c.n.mu.Lock()
	c.n.events = append(c.n.events, ev)
	c.n.mu.Unlock()
	c.n.counts[a.Kind].Add(1)
	if a.Kind == KillBefore {
		if !c.n.KeepFrames {
			r.body = nil
		}
		return true
	}
	if a.Kind == DelayBefore {
		time.Sleep(a.D) // this connection's requests reach the broker later, in order
	}
	// acks=0 produce has no response
	if r.Key == 0 {
		if pr, ok := r.Decode().(*kmsg.ProduceRequest); ok && pr.Acks == 0 {
			if !c.n.KeepFrames {
				r.body = nil
			}
			return false
		}
	}
	if !c.n.KeepFrames {
		r.body = nil // the log keeps headers only; bodies would pin every produce payload in memory
	}
	c.pmu.Lock()
	c.pending = append(c.pending, ev)
	c.pmu.Unlock()
	return false
}

func (c *conn) Write(p []byte) (int, error) {
	c.pmu.Lock()
	var ev *Event
	if len(c.pending) > 0 {
		ev = c.pending[0]
		c.pending = c.pending[1:]
	}
	c.pmu.Unlock()
	if ev == nil {
		return c.Conn.Write(p)
	}
	ev.RespLen = len(p)
	if c.n.KeepFrames {
		ev.Resp = append([]byte(nil), p...)
	}
	switch ev.Action.Kind {
	case KillAfter:
		c.Conn.Close()
		return 0, errKilled
	case Truncate:
		k := ev.Action.K
		if k > len(p) {
			k = len(p)
		}
		if k > 0 {
			c.Conn.Write(p[:k])
		}
		c.Conn.Close()
		return 0, errKilled
	case Delay:
		time.Sleep(ev.Action.D)
	case Rewrite:
		if ev.Action.Rewrite != nil {
			if _, err := c.Conn.Write(ev.Action.Rewrite(append([]byte(nil), p...))); err != nil {
				return 0, err
			}
			return len(p), nil
		}
	case Corrupt:
		q := append([]byte(nil), p...)
		for i := 8; i < len(q); i += 1 + len(q)/7 {
			q[i] ^= 0xa5
		}
		return c.Conn.Write(q)
	}
	return c.Conn.Write(p)
}
