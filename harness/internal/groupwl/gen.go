package groupwl

import "math/rand/v2"

// GenPlan draws a seeded graceful-churn group scenario.
func GenPlan(rng *rand.Rand, seed uint64, vt bool) Plan {
	p := Plan{
		Seed: seed, VT: vt, Brokers: 1 + rng.IntN(3), Topics: 1 + rng.IntN(2), Partitions: 1 + rng.IntN(7),
		Protocol:   []string{"range", "roundrobin", "sticky", "cooperative", "848", "848r"}[rng.IntN(6)],
		Initial:    1 + rng.IntN(3),
		ChurnGapMs: []int{30, 80, 200}[rng.IntN(3)],
		Records:    400 + rng.IntN(1200),
		AutoCommitMs: []int{100, 150, 300}[rng.IntN(3)],
		ProcessMaxUs: []int{0, 300, 2000}[rng.IntN(3)],
		PollRecords:  []int{0, 0, 5, 50}[rng.IntN(4)],
		AddTopicLate: rng.IntN(4) == 0,
		Yield:        []int{0, 20, 50}[rng.IntN(3)],
		SlowRevokeMs: []int{0, 0, 350}[rng.IntN(3)],
	}
	n := 2 + rng.IntN(6)
	steps := []string{"join", "join", "leave", "close", "restart"}
	for i := 0; i < n; i++ {
		p.Churn = append(p.Churn, steps[rng.IntN(len(steps))])
	}
	if p.AddTopicLate {
		p.Topics = 2
		p.Churn = append(p.Churn, "addtopic")
		rng.Shuffle(len(p.Churn), func(i, j int) { p.Churn[i], p.Churn[j] = p.Churn[j], p.Churn[i] })
	}
	if rng.IntN(4) == 0 {
		// tight: more members than partitions (members are reconciled down to nothing) and revoke
		// callbacks that outlast several heartbeats
		p.Partitions = 1 + rng.IntN(2)
		p.Topics = 1
		p.AddTopicLate = false
		p.Initial = 1 + rng.IntN(2)
		p.SlowRevokeMs = 350
		p.Protocol = []string{"848", "848r", "848r", "cooperative"}[rng.IntN(4)]
		p.Churn = append([]string{"join", "join"}, p.Churn...)
		for i, c := range p.Churn {
			if c == "addtopic" {
				p.Churn[i] = "join"
			}
		}
	}
	if wide := rng.IntN(5) == 0; wide && p.SlowRevokeMs == 0 {
		// wide: a cooperative group that grows to 4-6 members over many partitions, with revoke
		// callbacks slower than a rebalance round - a partition handed to a joiner in the same
		// generation in which its previous owner only starts revoking shows as an overlap
		p.Protocol = "cooperative"
		p.Topics = 1 + rng.IntN(2)
		p.Partitions = 6 + rng.IntN(7)
		p.Initial = 2 + rng.IntN(2)
		p.SlowRevokeMs = 350
		p.Churn = append([]string{"join", "join", "join"}, p.Churn...)
	}
	if rng.IntN(3) == 0 {
		p.LongProcessMs, p.LongFirstPoll, p.LongProcessP = 300, true, 0.03
	}
	if vt {
		p.Yield = 0
	}
	return p
}
