// Package groupwl is the seeded consumer-group workload behind C07 (ownership
// exclusion), C08 (autocommit at-least-once) and C41: group members with the
// default autocommit and revoke handling join, poll, leave, close and restart
// gracefully while a producer appends unique records. All rebalance callbacks,
// poll starts/returns and the OffsetCommit requests seen by the broker are
// stamped with one logical clock.
package groupwl

import (
	"context"
	"fmt"
	"math/rand/v2"
	"sort"
	"strings"
	"sync"
	"sync/atomic"
	"time"

	"github.com/twmb/franz-go/pkg/kadm"
	"github.com/twmb/franz-go/pkg/kfake"
	"github.com/twmb/franz-go/pkg/kgo"
	"github.com/twmb/franz-go/pkg/kmsg"

	"verifharness/internal/e2e"
)

type Plan struct {
	Seed           uint64     `json:"seed"`
	VT             bool       `json:"vt"`
	Brokers        int        `json:"brokers"`
	Topics         int        `json:"topics"`
	Partitions     int        `json:"partitions"`
	Protocol       string     `json:"protocol"` // range roundrobin sticky cooperative 848
	Initial        int        `json:"initial_members"`
	Churn          []string   `json:"churn"` // join / leave / close / restart, applied in order
	ChurnGapMs     int        `json:"churn_gap_ms"`
	Records        int        `json:"records"`
	AutoCommitMs   int        `json:"autocommit_ms"`
	ProcessMaxUs   int        `json:"process_delay_max_us"`
	PollRecords    int        `json:"poll_records_max"`
	AddTopicLate   bool       `json:"add_topic_late"` // a second topic joins the subscription via AddConsumeTopics
	Yield          int        `json:"yield_level"`
	BlockRebalance bool       `json:"block_rebalance_on_poll"`
	SlowRevokeMs   int        `json:"slow_revoke_ms"` // some OnPartitionsRevoked callbacks take this long (several heartbeat intervals)
	// a slow application: after a poll that returned records the member waits about
	// LongProcessMs before polling again - always after its first such poll (LongFirstPoll),
	// and with probability LongProcessP after any other
	LongProcessMs int     `json:"long_process_ms,omitempty"`
	LongFirstPoll bool    `json:"long_first_poll,omitempty"`
	LongProcessP  float64 `json:"long_process_p,omitempty"`
	Hooks          []kgo.Hook `json:"-"`              // extra hooks installed on every member (C14)
}

type Event struct {
	Clock  int64
	Kind   string // assigned-start assigned-end revoked-start revoked-end lost-start lost-end poll-start poll-return commit join leave close
	Member string
	Poll   int
	Parts  map[string][]int32 // callbacks
	Recs   []Rec              // poll-return
	Commit map[string]map[int32]int64
}

type Rec struct {
	Topic     string
	Partition int32
	Offset    int64
}

type Overlap struct {
	Topic       string
	Partition   int32
	PrevOwner   string
	NewOwner    string
	Clock       int64
	ReleasedVia string // "revoked", "lost", "" (never)
}

type Result struct {
	Plan        Plan
	Events      []Event
	Overlaps    []Overlap
	Unrevoked   []Overlap // partitions a member still owned (per its callbacks) when its Close returned
	Converged   bool
	FinalOwners map[string][]string // "topic/partition" -> owners at the end of the convergence wait
	Committed   map[string]int64    // final committed offsets "topic/partition"
	LogEnd      map[string]int64
	Inconcl     []string
	Rebalances  int
	Moves       int
	Lost        int
	Stacks      string
	YieldHits   map[string]int64
}

type monitor struct {
	mu        sync.Mutex
	clock     atomic.Int64
	events    []Event
	owners    map[string]map[string]bool // tp -> set of members
	overlaps  []Overlap
	unrevoked []Overlap
	gone      map[string]bool
	assigns   int
	moves     int
	lastOwner map[string]string
}

func (m *monitor) tick() int64 { return m.clock.Add(1) }

func (m *monitor) log(e Event) int64 {
	m.mu.Lock()
	defer m.mu.Unlock()
	e.Clock = m.tick()
	m.events = append(m.events, e)
	return e.Clock
}

func tpk(t string, p int32) string { return fmt.Sprintf("%s/%d", t, p) }

func (m *monitor) assignedStart(member string, parts map[string][]int32) {
	m.mu.Lock()
	defer m.mu.Unlock()
	clk := m.tick()
	m.events = append(m.events, Event{Clock: clk, Kind: "assigned-start", Member: member, Parts: parts})
	if len(parts) > 0 {
		m.assigns++
	}
	for t, ps := range parts {
		for _, p := range ps {
			k := tpk(t, p)
			if m.owners[k] == nil {
				m.owners[k] = map[string]bool{}
			}
			for prev := range m.owners[k] {
				if prev != member {
					m.overlaps = append(m.overlaps, Overlap{Topic: t, Partition: p, PrevOwner: prev, NewOwner: member, Clock: clk})
				}
			}
			m.owners[k][member] = true
			if lo, ok := m.lastOwner[k]; ok && lo != member {
				m.moves++
			}
			m.lastOwner[k] = member
		}
	}
}

// memberGone is called after a member's Close returned: whatever the monitor
// still has it owning was never passed to OnPartitionsRevoked/Lost.
func (m *monitor) memberGone(member string) {
	m.mu.Lock()
	defer m.mu.Unlock()
	clk := m.tick()
	if m.gone == nil {
		m.gone = map[string]bool{}
	}
	m.gone[member] = true
	for k, os := range m.owners {
		if os[member] {
			delete(os, member)
			var t string
			var p int32
			if i := strings.LastIndex(k, "/"); i > 0 {
				t = k[:i]
				fmt.Sscan(k[i+1:], &p)
			}
			m.unrevoked = append(m.unrevoked, Overlap{Topic: t, Partition: p, PrevOwner: member, Clock: clk})
			for i := range m.overlaps {
				o := &m.overlaps[i]
				if o.Topic == t && o.Partition == p && o.PrevOwner == member && o.ReleasedVia == "" {
					o.ReleasedVia = "never (member closed)"
				}
			}
		}
	}
}

func (m *monitor) released(member, via string, parts map[string][]int32) {
	m.mu.Lock()
	defer m.mu.Unlock()
	clk := m.tick()
	m.events = append(m.events, Event{Clock: clk, Kind: via + "-end", Member: member, Parts: parts})
	for t, ps := range parts {
		for _, p := range ps {
			k := tpk(t, p)
			delete(m.owners[k], member)
			for i := range m.overlaps {
				o := &m.overlaps[i]
				if o.Topic == t && o.Partition == p && o.PrevOwner == member && o.ReleasedVia == "" {
					o.ReleasedVia = via
				}
			}
		}
	}
}

type member struct {
	name  string
	cl    *kgo.Client
	stop  chan struct{}
	done  chan struct{}
	leave bool // LeaveGroup before Close
}

func balancer(p string) kgo.GroupBalancer {
	switch p {
	case "range", "848r":
		return kgo.RangeBalancer()
	case "roundrobin":
		return kgo.RoundRobinBalancer()
	case "sticky", "848":
		return kgo.StickyBalancer()
	}
	return kgo.CooperativeStickyBalancer()
}

const Group = "vgroup"

func topic(i int) string { return fmt.Sprintf("gt-%d", i) }

func Run(plan Plan, watchdog time.Duration) (res *Result) {
	res = &Result{Plan: plan, Committed: map[string]int64{}, LogEnd: map[string]int64{}, FinalOwners: map[string][]string{}}
	mon := &monitor{owners: map[string]map[string]bool{}, lastOwner: map[string]string{}}
	var inMu sync.Mutex
	inconcl := func(s string) { inMu.Lock(); res.Inconcl = append(res.Inconcl, s); inMu.Unlock() }

	var topics []string
	for i := 0; i < plan.Topics; i++ {
		topics = append(topics, topic(i))
	}
	kopts := []kfake.Opt{kfake.SeedTopics(int32(plan.Partitions), topics...),
		kfake.BrokerConfigs(map[string]string{"group.consumer.heartbeat.interval.ms": "100", "group.consumer.session.timeout.ms": "45000"})}
	env, err := e2e.NewEnv(plan.VT, plan.Brokers, nil, kopts...)
	if err != nil {
		inconcl("kfake: " + err.Error())
		return res
	}
	defer env.Close()
	var idMu sync.Mutex
	id2name := map[[16]byte]string{}
	env.C.ControlKey(int16(kmsg.OffsetCommit), func(kreq kmsg.Request) (kmsg.Response, error, bool) {
		env.C.KeepControl()
		req := kreq.(*kmsg.OffsetCommitRequest)
		if req.Group != Group {
			return nil, nil, false
		}
		c := map[string]map[int32]int64{}
		for _, t := range req.Topics {
			name := t.Topic
			if name == "" {
				idMu.Lock()
				name = id2name[t.TopicID]
				idMu.Unlock()
			}
			for _, p := range t.Partitions {
				if c[name] == nil {
					c[name] = map[int32]int64{}
				}
				c[name][p.Partition] = p.Offset
			}
		}
		mon.log(Event{Kind: "commit", Member: req.MemberID, Commit: c})
		return nil, nil, false
	})

	y := e2e.NewYield(plan.Seed, plan.Yield, plan.VT)
	if plan.Yield > 0 {
		y.Install()
		defer e2e.Uninstall()
	}
	defer func() { res.YieldHits = y.Hits() }()

	admin, err := env.NewClient()
	if err != nil {
		inconcl("admin: " + err.Error())
		return res
	}
	defer admin.Close()
	{
		ctx, cancel := context.WithTimeout(context.Background(), watchdog)
		tds, err := kadm.NewClient(admin).ListTopics(ctx, topics...)
		cancel()
		if err != nil {
			inconcl("list topics: " + err.Error())
			return res
		}
		idMu.Lock()
		for _, td := range tds {
			id2name[td.ID] = td.Topic
		}
		idMu.Unlock()
	}

	// producer
	var prodWG sync.WaitGroup
	prodWG.Add(1)
	prodStop := make(chan struct{})
	go func() {
		defer prodWG.Done()
		prng := rand.New(rand.NewPCG(plan.Seed, 3))
		cl, err := env.NewClient(kgo.RecordPartitioner(kgo.ManualPartitioner()))
		if err != nil {
			return
		}
		defer cl.Close()
		for i := 0; i < plan.Records; i++ {
			select {
			case <-prodStop:
				return
			default:
			}
			r := &kgo.Record{Topic: topics[prng.IntN(len(topics))], Partition: int32(prng.IntN(plan.Partitions)), Value: []byte(fmt.Sprintf("r%d", i))}
			cl.Produce(context.Background(), r, nil)
			if i%16 == 0 {
				time.Sleep(time.Duration(200+prng.IntN(1500)) * time.Microsecond)
			}
		}
		ctx, cancel := context.WithTimeout(context.Background(), watchdog)
		cl.Flush(ctx)
		cancel()
	}()

	var memMu sync.Mutex
	live := map[string]*member{}
	var memSeq int
	startMember := func(subTopics []string) *member {
		memMu.Lock()
		memSeq++
		name := fmt.Sprintf("m%d", memSeq)
		memMu.Unlock()
		mrng := rand.New(rand.NewPCG(plan.Seed, uint64(1000+memSeq)))
		cbrng := rand.New(rand.NewPCG(plan.Seed, uint64(5000+memSeq))) // callbacks run on kgo's goroutines
		var cbMu sync.Mutex
		ctx := context.Background()
		if plan.Protocol == "848" || plan.Protocol == "848r" {
			ctx = context.WithValue(ctx, "opt_in_kafka_next_gen_balancer_beta", true) //nolint
		}
		opts := []kgo.Opt{
			kgo.WithContext(ctx),
			kgo.ConsumerGroup(Group), kgo.ConsumeTopics(subTopics...), kgo.Balancers(balancer(plan.Protocol)),
			kgo.ConsumeResetOffset(kgo.NewOffset().AtStart()),
			kgo.AutoCommitInterval(time.Duration(plan.AutoCommitMs) * time.Millisecond),
			kgo.SessionTimeout(45 * time.Second), kgo.HeartbeatInterval(200 * time.Millisecond), kgo.RebalanceTimeout(60 * time.Second),
			kgo.FetchMaxWait(50 * time.Millisecond), kgo.MetadataMinAge(10 * time.Millisecond),
			// kfake derives member ids from the client id and leaders sort members by id: a random
			// leading letter makes a joiner sort before, between or after the existing members
			kgo.ClientID(fmt.Sprintf("%c-%s", 'a'+rune(plan.Seed>>3+uint64(memSeq)*7919)%26, name)),
			kgo.OnPartitionsAssigned(func(_ context.Context, _ *kgo.Client, parts map[string][]int32) {
				mon.assignedStart(name, parts)
				mon.log(Event{Kind: "assigned-end", Member: name, Parts: parts})
			}),
			kgo.OnPartitionsRevoked(func(_ context.Context, _ *kgo.Client, parts map[string][]int32) {
				mon.log(Event{Kind: "revoked-start", Member: name, Parts: parts})
				cbMu.Lock()
				e2e.Jitter(cbrng, 300)
				slow := plan.SlowRevokeMs > 0 && cbrng.IntN(2) == 0
				cbMu.Unlock()
				if slow {
					// a callback that outlasts heartbeats: the member still owns the partitions meanwhile
					time.Sleep(time.Duration(plan.SlowRevokeMs) * time.Millisecond)
				}
				mon.released(name, "revoked", parts)
			}),
			kgo.OnPartitionsLost(func(_ context.Context, _ *kgo.Client, parts map[string][]int32) {
				mon.log(Event{Kind: "lost-start", Member: name, Parts: parts})
				mon.released(name, "lost", parts)
			}),
		}
		if plan.BlockRebalance {
			opts = append(opts, kgo.BlockRebalanceOnPoll())
		}
		if len(plan.Hooks) > 0 {
			opts = append(opts, kgo.WithHooks(plan.Hooks...))
		}
		cl, err := env.NewClient(opts...)
		if err != nil {
			inconcl("member client: " + err.Error())
			return nil
		}
		m := &member{name: name, cl: cl, stop: make(chan struct{}), done: make(chan struct{})}
		mon.log(Event{Kind: "join", Member: name})
		go func() {
			defer close(m.done)
			k := 0
			longDone := false
			for {
				select {
				case <-m.stop:
					return
				default:
				}
				k++
				mon.log(Event{Kind: "poll-start", Member: name, Poll: k})
				ctx, cancel := context.WithTimeout(context.Background(), 80*time.Millisecond)
				var fs kgo.Fetches
				if plan.PollRecords > 0 {
					fs = cl.PollRecords(ctx, 1+mrng.IntN(plan.PollRecords))
				} else {
					fs = cl.PollFetches(ctx)
				}
				cancel()
				var recs []Rec
				fs.EachRecord(func(r *kgo.Record) { recs = append(recs, Rec{r.Topic, r.Partition, r.Offset}) })
				mon.log(Event{Kind: "poll-return", Member: name, Poll: k, Recs: recs})
				if plan.ProcessMaxUs > 0 && len(recs) > 0 {
					time.Sleep(time.Duration(mrng.IntN(plan.ProcessMaxUs)) * time.Microsecond)
				}
				// a slow application: autocommit ticks and rebalances land between this poll and
				// the next one, when the records just returned must not be committed yet
				if len(recs) > 0 && plan.LongProcessMs > 0 && (!longDone && plan.LongFirstPoll || mrng.Float64() < plan.LongProcessP) {
					longDone = true
					time.Sleep(time.Duration(plan.LongProcessMs/2+mrng.IntN(plan.LongProcessMs)) * time.Millisecond)
				}
				if plan.BlockRebalance {
					cl.AllowRebalance()
				}
			}
		}()
		memMu.Lock()
		live[name] = m
		memMu.Unlock()
		return m
	}
	stopMember := func(m *member, leaveFirst bool) {
		close(m.stop)
		<-m.done
		if leaveFirst {
			mon.log(Event{Kind: "leave", Member: m.name})
			m.cl.LeaveGroup()
		}
		mon.log(Event{Kind: "close", Member: m.name})
		m.cl.Close()
		mon.memberGone(m.name)
		memMu.Lock()
		delete(live, m.name)
		memMu.Unlock()
	}

	sub := topics
	if plan.AddTopicLate && len(topics) > 1 {
		sub = topics[:1]
	}
	for i := 0; i < plan.Initial; i++ {
		startMember(sub)
	}
	crng := rand.New(rand.NewPCG(plan.Seed, 17))
	gap := func() { time.Sleep(time.Duration(plan.ChurnGapMs/2+crng.IntN(plan.ChurnGapMs+1)) * time.Millisecond) }
	pick := func() *member {
		memMu.Lock()
		defer memMu.Unlock()
		var names []string
		for n := range live {
			names = append(names, n)
		}
		if len(names) == 0 {
			return nil
		}
		sort.Strings(names)
		return live[names[crng.IntN(len(names))]]
	}
	lateAdded := false
	for _, step := range plan.Churn {
		gap()
		switch step {
		case "join":
			startMember(sub)
		case "leave", "close":
			memMu.Lock()
			n := len(live)
			memMu.Unlock()
			if n <= 1 {
				startMember(sub)
				continue
			}
			if m := pick(); m != nil {
				stopMember(m, step == "leave")
			}
		case "restart":
			if m := pick(); m != nil {
				stopMember(m, false)
				startMember(sub)
			}
		case "addtopic":
			if plan.AddTopicLate && !lateAdded && len(topics) > 1 {
				lateAdded = true
				sub = topics
				memMu.Lock()
				for _, m := range live {
					m.cl.AddConsumeTopics(topics[1:]...)
				}
				memMu.Unlock()
			}
		}
	}
	if plan.AddTopicLate && !lateAdded && len(topics) > 1 {
		sub = topics
		memMu.Lock()
		for _, m := range live {
			m.cl.AddConsumeTopics(topics[1:]...)
		}
		memMu.Unlock()
	}

	// wait for the producer
	pd := make(chan struct{})
	go func() { prodWG.Wait(); close(pd) }()
	if !e2e.WaitOrTimeout(pd, watchdog) {
		inconcl("producer did not finish")
		close(prodStop)
		<-pd
	}

	// convergence: every partition of the subscribed topics owned by exactly one live member
	allParts := map[string]bool{}
	for _, t := range sub {
		for p := 0; p < plan.Partitions; p++ {
			allParts[tpk(t, int32(p))] = true
		}
	}
	converged := func() bool {
		mon.mu.Lock()
		defer mon.mu.Unlock()
		for k := range allParts {
			if len(mon.owners[k]) != 1 {
				return false
			}
		}
		for k, o := range mon.owners {
			if len(o) > 0 && !allParts[k] {
				return false
			}
		}
		return true
	}
	deadline := time.Now().Add(watchdog)
	stable := 0
	for time.Now().Before(deadline) {
		if converged() {
			stable++
			if stable >= 5 {
				break
			}
		} else {
			stable = 0
		}
		time.Sleep(100 * time.Millisecond)
	}
	res.Converged = stable >= 5
	mon.mu.Lock()
	for k := range allParts {
		var os []string
		for o := range mon.owners[k] {
			os = append(os, o)
		}
		sort.Strings(os)
		res.FinalOwners[k] = os
	}
	mon.mu.Unlock()
	if !res.Converged {
		res.Stacks = e2e.Stacks()
	}

	// let members consume to the end (bounded), then close them all gracefully
	adm := kadm.NewClient(admin)
	ctx, cancel := context.WithTimeout(context.Background(), watchdog)
	defer cancel()
	ends, err := adm.ListEndOffsets(ctx, topics...)
	if err != nil {
		inconcl("list end offsets: " + err.Error())
	}
	ends.Each(func(o kadm.ListedOffset) { res.LogEnd[tpk(o.Topic, o.Partition)] = o.Offset })
	consumedAll := func() bool {
		mon.mu.Lock()
		defer mon.mu.Unlock()
		max := map[string]int64{}
		for _, e := range mon.events {
			if e.Kind == "poll-return" {
				for _, r := range e.Recs {
					k := tpk(r.Topic, r.Partition)
					if r.Offset+1 > max[k] {
						max[k] = r.Offset + 1
					}
				}
			}
		}
		for k := range allParts {
			if max[k] < res.LogEnd[k] {
				return false
			}
		}
		return true
	}
	for time.Now().Before(deadline) && !consumedAll() {
		time.Sleep(50 * time.Millisecond)
	}
	// two more autocommit intervals so that head offsets get committed
	time.Sleep(time.Duration(3*plan.AutoCommitMs) * time.Millisecond)
	memMu.Lock()
	var rest []*member
	for _, m := range live {
		rest = append(rest, m)
	}
	memMu.Unlock()
	sort.Slice(rest, func(i, j int) bool { return rest[i].name < rest[j].name })
	for _, m := range rest {
		stopMember(m, false)
	}
	offs, err := adm.FetchOffsets(ctx, Group)
	if err != nil {
		inconcl("fetch offsets: " + err.Error())
	} else {
		offs.Each(func(o kadm.OffsetResponse) {
			if o.Err == nil {
				res.Committed[tpk(o.Topic, o.Partition)] = o.At
			}
		})
	}
	mon.mu.Lock()
	res.Events = mon.events
	res.Overlaps = mon.overlaps
	res.Unrevoked = mon.unrevoked
	res.Rebalances = mon.assigns
	res.Moves = mon.moves
	mon.mu.Unlock()
	for _, e := range res.Events {
		if e.Kind == "lost-start" && len(e.Parts) > 0 {
			res.Lost++
		}
	}
	return res
}

// Violation is an oracle finding.
type Violation struct{ Sig, Detail string }

// JudgeOwnership is the C07 oracle.
func (res *Result) JudgeOwnership() (vs []Violation, excused int) {
	for _, o := range res.Overlaps {
		switch o.ReleasedVia {
		case "lost":
			excused++
		case "never (member closed)":
			// judged below, once per member, under its own signature
		default:
			via := o.ReleasedVia
			if via == "" {
				via = "never released"
			}
			vs = append(vs, Violation{"partition-assigned-while-previous-owner-still-owns-it/" + res.Plan.Protocol,
				fmt.Sprintf("%s/%d: OnPartitionsAssigned of %s began at clock %d while %s still owned it (its release: %s)", o.Topic, o.Partition, o.NewOwner, o.Clock, o.PrevOwner, via)})
		}
	}
	seen := map[string]bool{}
	for _, u := range res.Unrevoked {
		if seen[u.PrevOwner] {
			continue
		}
		seen[u.PrevOwner] = true
		vs = append(vs, Violation{"member-closed-without-revoke-or-lost-callback-for-owned-partitions/" + res.Plan.Protocol,
			fmt.Sprintf("member %s: Close returned while %s/%d (and possibly more) had been passed to OnPartitionsAssigned and never to OnPartitionsRevoked/Lost", u.PrevOwner, u.Topic, u.Partition)})
	}
	if res.Converged {
		for k, os := range res.FinalOwners {
			if len(os) != 1 {
				vs = append(vs, Violation{"stable-group-partition-not-owned-exactly-once/" + res.Plan.Protocol, fmt.Sprintf("%s owners %v", k, os)})
			}
		}
	}
	return vs, excused
}

// JudgeCommits is the C08 oracle.
func (res *Result) JudgeCommits() (vs []Violation, commits int) {
	type key struct {
		m string
		k int
	}
	returned := map[key][]Rec{}
	done := map[string]map[int64]bool{}    // records returned by a poll after which that member started another poll
	everRet := map[string]map[int64]bool{} // returned to anybody
	mark := func(m map[string]map[int64]bool, r Rec) {
		k := tpk(r.Topic, r.Partition)
		if m[k] == nil {
			m[k] = map[int64]bool{}
		}
		m[k][r.Offset] = true
	}
	for _, e := range res.Events {
		switch e.Kind {
		case "poll-return":
			returned[key{e.Member, e.Poll}] = e.Recs
			for _, r := range e.Recs {
				mark(everRet, r)
			}
		case "poll-start":
			for _, r := range returned[key{e.Member, e.Poll - 1}] {
				mark(done, r)
			}
		case "commit":
			commits++
			for t, ps := range e.Commit {
				for p, o := range ps {
					k := tpk(t, p)
					for off := int64(0); off < o; off++ {
						if !done[k][off] {
							state := "never returned by any poll so far"
							if everRet[k][off] {
								state = "returned by a poll, but that member had not started another poll"
							}
							vs = append(vs, Violation{"commit-covers-record-not-yet-polled-past/" + res.Plan.Protocol,
								fmt.Sprintf("OffsetCommit for %s offset %d observed at clock %d (member %s) covers offset %d which was %s", k, o, e.Clock, e.Member, off, state)})
							return vs, commits
						}
					}
				}
			}
		}
	}
	for k, o := range res.Committed {
		for off := int64(0); off < o; off++ {
			if !everRet[k][off] {
				vs = append(vs, Violation{"final-committed-offset-covers-record-never-returned/" + res.Plan.Protocol, fmt.Sprintf("%s committed %d but offset %d was never returned to any member", k, o, off)})
				return vs, commits
			}
		}
	}
	return vs, commits
}
