package krammar

import (
	"bytes"
	"encoding/binary"
	"fmt"
	"math"
	"sort"
)

// Value model. A field value is one of:
//
//	bool                      bool
//	int64                     every integer kind (signed and unsigned)
//	float64                   float64
//	string                    string kinds
//	[]byte                    bytes kinds and length-field-minus
//	[16]byte                  uuid
//	[]any                     arrays
//	*StructVal                structs
//	Null{}                    null string / bytes / array / struct
type StructVal struct {
	// V holds the field values in definition order (index == position in
	// Struct.Fields); a nil entry means "not set" and reads as the default.
	V       []any
	Unknown []RawTag // unknown tagged fields (tag numbers above the known ones)
}

// NewStructVal returns a struct value with room for every field of st.
func NewStructVal(st *Struct) *StructVal {
	return &StructVal{V: make([]any, len(st.Fields))}
}

// Get returns the value of field i, or nil, false when not set.
func (v *StructVal) Get(i int) (any, bool) {
	if v == nil || i >= len(v.V) || v.V[i] == nil {
		return nil, false
	}
	return v.V[i], true
}

// Index returns the position of the named field, or -1.
func (s *Struct) Index(name string) int {
	for i, f := range s.Fields {
		if f.Name == name {
			return i
		}
	}
	return -1
}

// RawTag is one unknown tagged field.
type RawTag struct {
	Tag  uint32
	Data []byte
}

// MarkKind classifies a position in an encoding.
type MarkKind int

const (
	MarkField       MarkKind = iota // start of a field / element / struct
	MarkLen16                       // int16 string length
	MarkLen32                       // int32 bytes / array length
	MarkCompactLen                  // unsigned varint length+1 (string, bytes, array)
	MarkVarintLen                   // zig-zag varint length
	MarkTagCount                    // unsigned varint number of tagged fields
	MarkTagKey                      // unsigned varint tag number
	MarkTagSize                     // unsigned varint tagged field size
	MarkNullableFlag                // the presence byte of a nullable struct
)

// Mark is a structural position in an encoding produced by Encode.
type Mark struct {
	Off   int
	Width int
	Kind  MarkKind
	Array bool   // the length counts array elements (not bytes)
	Path  string // MarkField only: definition path of the field starting here
}

// ErrAmbiguous is returned (wrapped) when the definitions do not say what
// the bytes should be for the given value.
type ErrAmbiguous struct{ Why string }

func (e *ErrAmbiguous) Error() string { return "ambiguous: " + e.Why }

type encoder struct {
	buf      []byte
	version  int
	flexible bool
	marks    *[]Mark
}

func (e *encoder) mark(k MarkKind, off, width int, array bool) {
	if e.marks != nil {
		*e.marks = append(*e.marks, Mark{Off: off, Width: width, Kind: k, Array: array})
	}
}

func (e *encoder) u8(v byte)    { e.buf = append(e.buf, v) }
func (e *encoder) u16(v uint16) { e.buf = binary.BigEndian.AppendUint16(e.buf, v) }
func (e *encoder) u32(v uint32) { e.buf = binary.BigEndian.AppendUint32(e.buf, v) }
func (e *encoder) u64(v uint64) { e.buf = binary.BigEndian.AppendUint64(e.buf, v) }

// Uvarint appends the unsigned LEB128 form of u.
func Uvarint(dst []byte, u uint64) []byte {
	for u >= 0x80 {
		dst = append(dst, byte(u)|0x80)
		u >>= 7
	}
	return append(dst, byte(u))
}

// ZigZag32 / ZigZag64 map signed to unsigned per protocol buffers.
func ZigZag32(i int32) uint64 { return uint64(uint32((i << 1) ^ (i >> 31))) }
func ZigZag64(i int64) uint64 { return uint64((i << 1) ^ (i >> 63)) }

func (e *encoder) uvarint(u uint64) int {
	at := len(e.buf)
	e.buf = Uvarint(e.buf, u)
	return len(e.buf) - at
}

// Encode produces the wire bytes of a message of definition st at version.
// For a top level definition the version is not part of the body; for a
// definition with a version field the Version field value is forced to
// version. marks, if not nil, receives the structural positions.
func Encode(st *Struct, version int, v *StructVal, marks *[]Mark) ([]byte, error) {
	if len(st.Unsupported) > 0 {
		return nil, fmt.Errorf("definition %s is not interpretable: %s", st.Name, st.Unsupported[0])
	}
	if st.NoEncoding {
		return nil, fmt.Errorf("definition %s has no encoding of its own", st.Name)
	}
	e := &encoder{version: version, flexible: st.Flexible(version), marks: marks}
	if st.WithVersionField {
		cp := &StructVal{V: append(make([]any, 0, len(st.Fields)), v.V...), Unknown: v.Unknown}
		for len(cp.V) < len(st.Fields) {
			cp.V = append(cp.V, nil)
		}
		cp.V[0] = int64(version)
		v = cp
	}
	if err := e.structBody(st, v); err != nil {
		return nil, err
	}
	return e.buf, nil
}

func (e *encoder) structBody(st *Struct, v *StructVal) error {
	if v == nil {
		return fmt.Errorf("%s: missing struct value", st.Name)
	}
	for i, f := range st.Fields {
		if !f.Present(e.version) {
			continue
		}
		fv, ok := v.Get(i)
		if !ok {
			fv = DefaultOf(f.Type)
		}
		if e.marks != nil {
			*e.marks = append(*e.marks, Mark{Off: len(e.buf), Kind: MarkField, Path: st.Name + "." + f.Name})
			// an int32 that a later length-field-minus field refers to is a length
			for _, o := range st.Fields {
				if o.Type.Kind == KLengthFieldMinus && o.Type.LenField == f.Name && f.Type.Kind == KInt32 {
					*e.marks = append(*e.marks, Mark{Off: len(e.buf), Width: 4, Kind: MarkLen32})
				}
			}
		}
		if err := e.value(f.Type, fv, st, v); err != nil {
			return fmt.Errorf("%s.%s: %w", st.Name, f.Name, err)
		}
	}
	if !e.flexible {
		return nil
	}
	if st.FlexibleAt < 0 {
		return fmt.Errorf("%s: nested in a flexible message but not itself flexible", st.Name)
	}
	// tagged field section: known tags that differ from their default plus
	// unknown tags, ascending by tag number
	type tf struct {
		tag   uint32
		data  []byte
		marks []Mark
	}
	var tfs []tf
	for i, f := range st.Fields {
		if f.Tag < 0 {
			continue
		}
		fv, ok := v.Get(i)
		if !ok {
			continue
		}
		def := DefaultOf(f.Type)
		all := !Equal(fv, def)
		vis := !equalAt(f.Type, fv, def, e.version)
		if all != vis {
			return &ErrAmbiguous{fmt.Sprintf("%s.%s differs from its default only in fields absent at v%d", st.Name, f.Name, e.version)}
		}
		if f.Type.Kind == KArray && f.Type.ArrKind == ArrNullable && !f.Type.HasDefault {
			return &ErrAmbiguous{fmt.Sprintf("%s.%s: tagged nullable array without a stated default", st.Name, f.Name)}
		}
		if !all {
			continue
		}
		sub := &encoder{version: e.version, flexible: true}
		var subMarks []Mark
		if e.marks != nil {
			sub.marks = &subMarks
			subMarks = append(subMarks, Mark{Kind: MarkField, Path: fmt.Sprintf("%s.%s(tag %d)", st.Name, f.Name, f.Tag)})
		}
		if err := sub.value(f.Type, fv, st, v); err != nil {
			return fmt.Errorf("%s.%s (tag %d): %w", st.Name, f.Name, f.Tag, err)
		}
		tfs = append(tfs, tf{uint32(f.Tag), sub.buf, subMarks})
	}
	nKnown := len(st.KnownTags())
	seen := map[uint32]bool{}
	for _, u := range v.Unknown {
		if int64(u.Tag) < int64(nKnown) || seen[u.Tag] {
			return fmt.Errorf("%s: unknown tag %d collides", st.Name, u.Tag)
		}
		seen[u.Tag] = true
		tfs = append(tfs, tf{u.Tag, u.Data, nil})
	}
	sort.SliceStable(tfs, func(i, j int) bool { return tfs[i].tag < tfs[j].tag })
	at := len(e.buf)
	if e.marks != nil {
		*e.marks = append(*e.marks, Mark{Off: at, Kind: MarkField, Path: st.Name + ".<tagged field section>"})
	}
	w := e.uvarint(uint64(len(tfs)))
	e.mark(MarkTagCount, at, w, false)
	for _, t := range tfs {
		at = len(e.buf)
		w = e.uvarint(uint64(t.tag))
		e.mark(MarkTagKey, at, w, false)
		at = len(e.buf)
		w = e.uvarint(uint64(len(t.data)))
		e.mark(MarkTagSize, at, w, false)
		if e.marks != nil {
			for _, m := range t.marks {
				m.Off += len(e.buf)
				*e.marks = append(*e.marks, m)
			}
		}
		e.buf = append(e.buf, t.data...)
	}
	return nil
}

func asInt(v any) (int64, error) {
	if n, ok := v.(int64); ok {
		return n, nil
	}
	return 0, fmt.Errorf("want integer, have %T", v)
}

func (e *encoder) length(n int, sixteen bool, array bool) error {
	at := len(e.buf)
	switch {
	case e.flexible:
		w := e.uvarint(uint64(n) + 1)
		e.mark(MarkCompactLen, at, w, array)
	case sixteen:
		if n > math.MaxInt16 {
			return fmt.Errorf("string of %d bytes does not fit an int16 length", n)
		}
		e.u16(uint16(n))
		e.mark(MarkLen16, at, 2, array)
	default:
		e.u32(uint32(n))
		e.mark(MarkLen32, at, 4, array)
	}
	return nil
}

func (e *encoder) null(sixteen bool, array bool) {
	at := len(e.buf)
	switch {
	case e.flexible:
		e.u8(0)
		e.mark(MarkCompactLen, at, 1, array)
	case sixteen:
		e.u16(0xffff)
		e.mark(MarkLen16, at, 2, array)
	default:
		e.u32(0xffffffff)
		e.mark(MarkLen32, at, 4, array)
	}
}

func (e *encoder) value(t *Type, v any, parent *Struct, pv *StructVal) error {
	_, isNull := v.(Null)
	if isNull && !t.Nullable(e.version) {
		return fmt.Errorf("null value for %v which is not nullable at v%d", t.Kind, e.version)
	}
	switch t.Kind {
	case KBool:
		b, ok := v.(bool)
		if !ok {
			return fmt.Errorf("want bool, have %T", v)
		}
		if b {
			e.u8(1)
		} else {
			e.u8(0)
		}
	case KInt8, KInt16, KUint16, KInt32, KUint32, KInt64, KVarint, KVarlong:
		n, err := asInt(v)
		if err != nil {
			return err
		}
		switch t.Kind {
		case KInt8:
			e.u8(byte(n))
		case KInt16, KUint16:
			e.u16(uint16(n))
		case KInt32, KUint32:
			e.u32(uint32(n))
		case KInt64:
			e.u64(uint64(n))
		case KVarint:
			e.uvarint(ZigZag32(int32(n)))
		case KVarlong:
			e.uvarint(ZigZag64(n))
		}
	case KFloat64:
		x, ok := v.(float64)
		if !ok {
			return fmt.Errorf("want float64, have %T", v)
		}
		e.u64(math.Float64bits(x))
	case KUuid:
		u, ok := v.([16]byte)
		if !ok {
			return fmt.Errorf("want uuid, have %T", v)
		}
		e.buf = append(e.buf, u[:]...)
	case KString, KNullableString:
		if isNull {
			e.null(true, false)
			return nil
		}
		s, ok := v.(string)
		if !ok {
			return fmt.Errorf("want string, have %T", v)
		}
		if err := e.length(len(s), true, false); err != nil {
			return err
		}
		e.buf = append(e.buf, s...)
	case KBytes, KNullableBytes:
		if isNull {
			e.null(false, false)
			return nil
		}
		b, ok := v.([]byte)
		if !ok {
			return fmt.Errorf("want bytes, have %T", v)
		}
		if err := e.length(len(b), false, false); err != nil {
			return err
		}
		e.buf = append(e.buf, b...)
	case KVarintString:
		s, ok := v.(string)
		if !ok {
			return fmt.Errorf("want string, have %T", v)
		}
		at := len(e.buf)
		w := e.uvarint(ZigZag32(int32(len(s))))
		e.mark(MarkVarintLen, at, w, false)
		e.buf = append(e.buf, s...)
	case KVarintBytes:
		at := len(e.buf)
		if isNull {
			w := e.uvarint(ZigZag32(-1))
			e.mark(MarkVarintLen, at, w, false)
			return nil
		}
		b, ok := v.([]byte)
		if !ok {
			return fmt.Errorf("want bytes, have %T", v)
		}
		w := e.uvarint(ZigZag32(int32(len(b))))
		e.mark(MarkVarintLen, at, w, false)
		e.buf = append(e.buf, b...)
	case KLengthFieldMinus:
		b, ok := v.([]byte)
		if !ok {
			return fmt.Errorf("want bytes, have %T", v)
		}
		e.buf = append(e.buf, b...)
	case KArray:
		if isNull {
			e.null(false, true)
			return nil
		}
		a, ok := v.([]any)
		if !ok {
			return fmt.Errorf("want array, have %T", v)
		}
		if t.ArrKind == ArrVarint {
			at := len(e.buf)
			w := e.uvarint(ZigZag32(int32(len(a))))
			e.mark(MarkVarintLen, at, w, true)
		} else if err := e.length(len(a), false, true); err != nil {
			return err
		}
		for i, x := range a {
			e.mark(MarkField, len(e.buf), 0, false)
			if err := e.value(t.Elem, x, parent, pv); err != nil {
				return fmt.Errorf("[%d]: %w", i, err)
			}
		}
	case KStruct:
		if t.Struct == nil {
			return fmt.Errorf("unresolved struct type")
		}
		if t.NullableStruct {
			at := len(e.buf)
			if isNull {
				e.u8(0xff)
				e.mark(MarkNullableFlag, at, 1, false)
				return nil
			}
			e.u8(1)
			e.mark(MarkNullableFlag, at, 1, false)
		}
		sv, ok := v.(*StructVal)
		if !ok {
			return fmt.Errorf("want struct, have %T", v)
		}
		return e.structBody(t.Struct, sv)
	default:
		return fmt.Errorf("kind %v not encodable", t.Kind)
	}
	return nil
}

// DefaultOf returns the default value of a type: the stated default, else
// the zero value (null for kinds that can be null).
func DefaultOf(t *Type) any {
	if t.HasDefault {
		return t.Default
	}
	switch t.Kind {
	case KBool:
		return false
	case KInt8, KInt16, KUint16, KInt32, KUint32, KInt64, KVarint, KVarlong:
		return int64(0)
	case KFloat64:
		return float64(0)
	case KUuid:
		return [16]byte{}
	case KString, KVarintString:
		return ""
	case KNullableString, KNullableBytes, KVarintBytes:
		return Null{}
	case KBytes, KLengthFieldMinus:
		return []byte{}
	case KArray:
		if t.ArrKind == ArrNullable {
			return Null{}
		}
		return []any{}
	case KStruct:
		if t.NullableStruct {
			return Null{}
		}
		return DefaultStruct(t.Struct)
	}
	return nil
}

// DefaultStruct returns a struct value with every field at its default.
func DefaultStruct(st *Struct) *StructVal {
	if st == nil {
		return &StructVal{}
	}
	v := NewStructVal(st)
	for i, f := range st.Fields {
		v.V[i] = DefaultOf(f.Type)
	}
	return v
}

// Equal compares two values of the model (floats by bit pattern).
func Equal(a, b any) bool {
	switch x := a.(type) {
	case Null:
		_, ok := b.(Null)
		return ok
	case bool:
		y, ok := b.(bool)
		return ok && x == y
	case int64:
		y, ok := b.(int64)
		return ok && x == y
	case float64:
		y, ok := b.(float64)
		return ok && math.Float64bits(x) == math.Float64bits(y)
	case string:
		y, ok := b.(string)
		return ok && x == y
	case []byte:
		y, ok := b.([]byte)
		return ok && bytes.Equal(x, y)
	case [16]byte:
		y, ok := b.([16]byte)
		return ok && x == y
	case []any:
		y, ok := b.([]any)
		if !ok || len(x) != len(y) {
			return false
		}
		for i := range x {
			if !Equal(x[i], y[i]) {
				return false
			}
		}
		return true
	case *StructVal:
		y, ok := b.(*StructVal)
		if !ok || len(x.V) != len(y.V) || len(x.Unknown) != len(y.Unknown) {
			return false
		}
		for k, xv := range x.V {
			yv := y.V[k]
			if (xv == nil) != (yv == nil) || (xv != nil && !Equal(xv, yv)) {
				return false
			}
		}
		xs, ys := SortedTags(x.Unknown), SortedTags(y.Unknown)
		for i := range xs {
			if xs[i].Tag != ys[i].Tag || !bytes.Equal(xs[i].Data, ys[i].Data) {
				return false
			}
		}
		return true
	}
	return false
}

// equalAt compares only what is on the wire at version (in a flexible message).
func equalAt(t *Type, a, b any, version int) bool {
	switch t.Kind {
	case KArray:
		x, ok1 := a.([]any)
		y, ok2 := b.([]any)
		if !ok1 || !ok2 {
			return Equal(a, b)
		}
		if len(x) != len(y) {
			return false
		}
		for i := range x {
			if !equalAt(t.Elem, x[i], y[i], version) {
				return false
			}
		}
		return true
	case KStruct:
		x, ok1 := a.(*StructVal)
		y, ok2 := b.(*StructVal)
		if !ok1 || !ok2 {
			return Equal(a, b)
		}
		for i, f := range t.Struct.Fields {
			if f.Tag < 0 && !f.Present(version) {
				continue
			}
			xv, ok1 := x.Get(i)
			yv, ok2 := y.Get(i)
			if !ok1 {
				xv = DefaultOf(f.Type)
			}
			if !ok2 {
				yv = DefaultOf(f.Type)
			}
			if !equalAt(f.Type, xv, yv, version) {
				return false
			}
		}
		return Equal(&StructVal{Unknown: x.Unknown}, &StructVal{Unknown: y.Unknown})
	}
	return Equal(a, b)
}

// SortedTags returns the tags ascending by number.
func SortedTags(in []RawTag) []RawTag {
	out := append([]RawTag(nil), in...)
	sort.SliceStable(out, func(i, j int) bool { return out[i].Tag < out[j].Tag })
	return out
}
