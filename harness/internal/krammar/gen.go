package krammar

import (
	"math"
	"math/rand/v2"
)

// Mode selects the shape of generated values.
type Mode int

const (
	ModeDefault  Mode = iota // every field at its default
	ModeSmall                // random small values, nulls and empties mixed
	ModeBoundary             // string / bytes / array lengths 0,1,127,128 (rarely 16383,16384)
	ModeNulls                // null wherever representable, otherwise empty
	ModeFull                 // nothing at its default, nothing null or empty, unknown tags everywhere
	NumModes
)

func (m Mode) String() string {
	return [...]string{"default", "small", "boundary", "nulls", "full"}[m]
}

type gen struct {
	rng     *rand.Rand
	mode    Mode
	version int
	budget  int // remaining array elements / string bytes for big picks
}

// Gen produces a value for definition st to be encoded at version. Fields
// that are absent at version get values too (an encoder must ignore them).
// Null is only produced for present fields where it is representable at
// version. length-field-minus relations are made consistent.
func Gen(rng *rand.Rand, st *Struct, version int, mode Mode) *StructVal {
	g := &gen{rng: rng, mode: mode, version: version, budget: 3000}
	if mode == ModeBoundary {
		g.budget = 70000
	}
	v := g.structVal(st, true, 0)
	if st.WithVersionField {
		v.V[0] = int64(version)
	}
	return v
}

// DefaultAt is DefaultOf for a field on the wire at version: where the
// default is null but null is not representable at that version (a
// nullable-string-vN+ or nullable-vN+[] before version N) it is empty.
func DefaultAt(t *Type, version int) any {
	d := DefaultOf(t)
	if _, isNull := d.(Null); isNull && !t.Nullable(version) {
		switch t.Kind {
		case KNullableString:
			return ""
		case KArray:
			return []any{}
		}
	}
	return d
}

func (g *gen) structVal(st *Struct, present bool, depth int) *StructVal {
	v := NewStructVal(st)
	flexible := st.Flexible(g.version)
	for i, f := range st.Fields {
		p := present && (f.Present(g.version) || (f.Tag >= 0 && flexible))
		if g.mode == ModeDefault {
			if p {
				v.V[i] = DefaultAt(f.Type, g.version)
			} else {
				v.V[i] = DefaultOf(f.Type)
			}
			continue
		}
		x := g.value(f.Type, p, depth)
		if g.mode == ModeFull || (f.Tag >= 0 && g.rng.IntN(4) != 0) {
			// make sure it is not the default (tagged fields are then written)
			for try := 0; try < 8 && Equal(x, DefaultOf(f.Type)); try++ {
				x = g.value(f.Type, p, depth)
			}
		}
		v.V[i] = x
	}
	for i, f := range st.Fields {
		if f.Type.Kind == KLengthFieldMinus {
			b, _ := v.V[i].([]byte)
			if li := st.Index(f.Type.LenField); li >= 0 {
				v.V[li] = int64(len(b) + f.Type.LenMinus)
			}
		}
	}
	if st.FlexibleAt >= 0 && g.mode != ModeDefault && g.mode != ModeNulls {
		n := 0
		switch {
		case g.mode == ModeFull:
			n = 1 + g.rng.IntN(3)
		case g.rng.IntN(4) == 0:
			n = 1 + g.rng.IntN(2)
		}
		base := uint32(len(st.KnownTags()))
		cands := []uint32{base, base + 1, base + 7, 126, 127, 128, 129, 16383, 16384, 1 << 21, math.MaxInt32, math.MaxUint32 - 1, math.MaxUint32}
		used := map[uint32]bool{}
		for i := 0; i < n; i++ {
			tag := cands[g.rng.IntN(len(cands))]
			if g.rng.IntN(3) == 0 {
				tag = base + g.rng.Uint32N(1<<16)
			}
			if tag < base || used[tag] {
				continue
			}
			used[tag] = true
			sizes := []int{0, 1, 2, 5, 127, 128}
			data := make([]byte, sizes[g.rng.IntN(len(sizes))])
			for j := range data {
				data[j] = byte(g.rng.Uint32())
			}
			v.Unknown = append(v.Unknown, RawTag{Tag: tag, Data: data})
		}
	}
	return v
}

// pickLen chooses a length for a string (elemCost 1) or array.
func (g *gen) pickLen(array bool, depth int) int {
	var n int
	switch g.mode {
	case ModeNulls:
		return 0
	case ModeFull:
		n = 1 + g.rng.IntN(3)
	case ModeBoundary:
		switch r := g.rng.IntN(20); {
		case r < 3:
			n = 0
		case r < 6:
			n = 1
		case r < 11:
			n = 127
		case r < 16:
			n = 128
		case r == 16 && !array:
			n = []int{16383, 16384, 32767}[g.rng.IntN(3)]
		case r == 17 && array && depth == 0:
			n = []int{16383, 16384}[g.rng.IntN(2)]
		default:
			n = 2 + g.rng.IntN(3)
		}
	default:
		n = g.rng.IntN(4)
		if !array {
			n = g.rng.IntN(12)
		}
	}
	if n > 3 {
		cost := n
		if array {
			cost = n * 4
		}
		if array && depth > 0 && n > 200 {
			n, cost = 128, 512
		}
		if cost > g.budget {
			return g.rng.IntN(3)
		}
		g.budget -= cost
	}
	return n
}

func (g *gen) str(n int) string {
	const alpha = "abcdefghijklmnopqrstuvwxyzABCDEFGHIJKLMNOPQRSTUVWXYZ0123456789-_."
	b := make([]byte, n)
	raw := g.rng.IntN(8) == 0
	for i := range b {
		if raw {
			b[i] = byte(g.rng.Uint32())
		} else {
			b[i] = alpha[g.rng.IntN(len(alpha))]
		}
	}
	return string(b)
}

func (g *gen) integer(bits uint, signed bool) int64 {
	var lo, hi int64
	if signed {
		lo, hi = -(int64(1) << (bits - 1)), int64(1)<<(bits-1)-1
	} else {
		lo, hi = 0, int64(1)<<bits-1
	}
	switch g.rng.IntN(8) {
	case 0:
		return lo
	case 1:
		return hi
	case 2:
		if signed {
			return -1
		}
		return 1
	case 3:
		return 0
	case 4:
		return 1
	case 5:
		// small
		x := int64(g.rng.IntN(300))
		if signed && g.rng.IntN(2) == 0 {
			x = -x
		}
		if x < lo {
			x = lo
		}
		if x > hi {
			x = hi
		}
		return x
	default:
		u := g.rng.Uint64()
		if bits < 64 {
			u &= (uint64(1) << bits) - 1
		}
		x := int64(u)
		if signed && bits < 64 && x > hi {
			x -= int64(1) << bits
		}
		return x
	}
}

func (g *gen) value(t *Type, present bool, depth int) any {
	if g.mode == ModeDefault {
		if present {
			return DefaultAt(t, g.version)
		}
		return DefaultOf(t)
	}
	canNull := t.EverNullable() && (!present || t.Nullable(g.version))
	if canNull {
		switch {
		case g.mode == ModeNulls:
			return Null{}
		case g.mode == ModeFull:
		case g.rng.IntN(3) == 0:
			return Null{}
		}
	}
	switch t.Kind {
	case KBool:
		if g.mode == ModeFull {
			d, _ := DefaultOf(t).(bool)
			return !d
		}
		return g.rng.IntN(2) == 1
	case KInt8:
		return g.integer(8, true)
	case KInt16:
		return g.integer(16, true)
	case KUint16:
		return g.integer(16, false)
	case KInt32, KVarint:
		return g.integer(32, true)
	case KUint32:
		return g.integer(32, false)
	case KInt64, KVarlong:
		return g.integer(64, true)
	case KFloat64:
		switch g.rng.IntN(6) {
		case 0:
			return math.Inf(1)
		case 1:
			return math.Copysign(0, -1)
		case 2:
			return math.MaxFloat64
		case 3:
			return math.SmallestNonzeroFloat64
		}
		return g.rng.NormFloat64() * 1e6
	case KUuid:
		var u [16]byte
		if g.mode != ModeFull && g.rng.IntN(5) == 0 {
			return u
		}
		for i := range u {
			u[i] = byte(g.rng.Uint32())
		}
		u[g.rng.IntN(16)] |= 1
		return u
	case KString, KNullableString, KVarintString:
		return g.str(g.pickLen(false, depth))
	case KBytes, KNullableBytes, KVarintBytes, KLengthFieldMinus:
		return []byte(g.str(g.pickLen(false, depth)))
	case KArray:
		n := g.pickLen(true, depth)
		a := make([]any, n)
		for i := range a {
			a[i] = g.value(t.Elem, present, depth+1)
		}
		return a
	case KStruct:
		return g.structVal(t.Struct, present, depth)
	}
	return nil
}

// Project returns what a decoder must hold after reading the encoding of v
// at version: every field on the wire keeps its value, every other field is
// at its default, unknown tags survive in flexible versions only.
func Project(st *Struct, version int, v *StructVal) *StructVal {
	out := projectStruct(st, version, v)
	if st.WithVersionField {
		out.V[0] = int64(version)
	}
	return out
}

func projectStruct(st *Struct, version int, v *StructVal) *StructVal {
	out := NewStructVal(st)
	flexible := st.Flexible(version)
	for i, f := range st.Fields {
		on := f.Present(version) || (f.Tag >= 0 && flexible)
		fv, ok := v.Get(i)
		if !on || !ok {
			out.V[i] = DefaultOf(f.Type)
			continue
		}
		out.V[i] = projectValue(f.Type, version, fv)
	}
	if flexible {
		out.Unknown = SortedTags(v.Unknown)
	}
	return out
}

func projectValue(t *Type, version int, v any) any {
	if _, isNull := v.(Null); isNull {
		return v
	}
	switch t.Kind {
	case KArray:
		a, _ := v.([]any)
		out := make([]any, len(a))
		for i := range a {
			out[i] = projectValue(t.Elem, version, a[i])
		}
		return out
	case KStruct:
		sv, _ := v.(*StructVal)
		if sv == nil {
			return v
		}
		return projectStruct(t.Struct, version, sv)
	}
	return v
}
