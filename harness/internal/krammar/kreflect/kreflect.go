// Package kreflect connects krammar's value model with the generated kmsg Go
// structs by reflection: it finds the Go type for a definition name, fills a
// Go struct from a krammar value, and reads a Go struct back into the value
// model (canonical form) so that two of them can be compared field by field.
//
// The naming rule of the generator is: Go field name == definition field
// name; top level messages have an extra leading "Version int16"; every
// struct of a definition that is flexible from some version on has a trailing
// "UnknownTags kmsg.Tags".
package kreflect

import (
	"bytes"
	"fmt"
	"math"
	"reflect"
	"sort"

	"github.com/twmb/franz-go/pkg/kmsg"

	"verifharness/internal/krammar"
)

// misc maps the names of the non-request definitions that have an encoding of
// their own to constructors. Requests and responses are found through
// kmsg.RequestForKey / kmsg.ResponseForKey.
var misc = map[string]func() any{
	"MessageV0":                func() any { return new(kmsg.MessageV0) },
	"MessageV1":                func() any { return new(kmsg.MessageV1) },
	"Header":                   func() any { return new(kmsg.Header) },
	"RecordBatch":              func() any { return new(kmsg.RecordBatch) },
	"OffsetCommitKey":          func() any { return new(kmsg.OffsetCommitKey) },
	"OffsetCommitValue":        func() any { return new(kmsg.OffsetCommitValue) },
	"GroupMetadataKey":         func() any { return new(kmsg.GroupMetadataKey) },
	"GroupMetadataValue":       func() any { return new(kmsg.GroupMetadataValue) },
	"TxnMetadataKey":           func() any { return new(kmsg.TxnMetadataKey) },
	"TxnMetadataValue":         func() any { return new(kmsg.TxnMetadataValue) },
	"ConsumerMemberMetadata":   func() any { return new(kmsg.ConsumerMemberMetadata) },
	"ConsumerMemberAssignment": func() any { return new(kmsg.ConsumerMemberAssignment) },
	"ConnectMemberMetadata":    func() any { return new(kmsg.ConnectMemberMetadata) },
	"ConnectMemberAssignment":  func() any { return new(kmsg.ConnectMemberAssignment) },
	"DefaultPrincipalData":     func() any { return new(kmsg.DefaultPrincipalData) },
	"ControlRecordKey":         func() any { return new(kmsg.ControlRecordKey) },
	"EndTxnMarker":             func() any { return new(kmsg.EndTxnMarker) },
	"LeaderChangeMessage":      func() any { return new(kmsg.LeaderChangeMessage) },
}

// Codec is what every encodable generated type offers.
type Codec interface {
	AppendTo([]byte) []byte
	ReadFrom([]byte) error
}

// UnsafeReader is the optional zero-copy decoder.
type UnsafeReader interface {
	UnsafeReadFrom([]byte) error
}

type defaulter interface{ Default() }

// GoType is one generated Go type that can be exercised at several versions.
type GoType struct {
	Name      string
	Key       int  // -1 for non-request types
	Versioned bool // has a Version field that selects the encoding
	MaxVer    int  // as reported by the Go type (MaxVersion()) or -1
	ctor      func() any
}

// New returns a fresh default-initialised value set to version.
func (g *GoType) New(version int) Codec {
	v := g.ctor()
	if d, ok := v.(defaulter); ok {
		d.Default()
	}
	if g.Versioned {
		rv := reflect.ValueOf(v).Elem()
		rv.FieldByName("Version").SetInt(int64(version))
	}
	return v.(Codec)
}

// AllGoTypes enumerates every request and response reachable through
// RequestForKey / ResponseForKey for keys 0..MaxKey (and a margin), and the
// misc table, sorted by name.
func AllGoTypes() []*GoType {
	var out []*GoType
	for key := 0; key <= kmsg.MaxKey+64; key++ {
		k := int16(key)
		if req := kmsg.RequestForKey(k); req != nil {
			out = append(out, &GoType{
				Name: reflect.TypeOf(req).Elem().Name(), Key: key, Versioned: true, MaxVer: int(req.MaxVersion()),
				ctor: func() any { return kmsg.RequestForKey(k) },
			})
		}
		if resp := kmsg.ResponseForKey(k); resp != nil {
			out = append(out, &GoType{
				Name: reflect.TypeOf(resp).Elem().Name(), Key: key, Versioned: true, MaxVer: int(resp.MaxVersion()),
				ctor: func() any { return kmsg.ResponseForKey(k) },
			})
		}
	}
	for name, c := range misc {
		c := c
		v := c()
		_, versioned := reflect.TypeOf(v).Elem().FieldByName("Version")
		out = append(out, &GoType{Name: name, Key: -1, Versioned: versioned, MaxVer: -1, ctor: c})
	}
	sort.Slice(out, func(i, j int) bool { return out[i].Name < out[j].Name })
	return out
}

// Lookup finds the Go type for a definition.
func Lookup(all []*GoType, st *krammar.Struct) *GoType {
	for _, g := range all {
		if g.Name == st.Name {
			return g
		}
	}
	return nil
}

var tagsType = reflect.TypeOf(kmsg.Tags{})

// CheckShape verifies that the Go struct type has exactly the fields the
// definition implies, recursively. A non-nil error means "cannot map".
func CheckShape(rt reflect.Type, st *krammar.Struct, topLevel bool) error {
	if rt.Kind() != reflect.Struct {
		return fmt.Errorf("%s: Go type %v is not a struct", st.Name, rt)
	}
	want := map[string]bool{}
	if topLevel && st.TopLevel {
		want["Version"] = true
		if f, ok := rt.FieldByName("Version"); !ok || f.Type.Kind() != reflect.Int16 {
			return fmt.Errorf("%s: no Version int16 field", st.Name)
		}
	}
	for _, f := range st.Fields {
		want[f.Name] = true
		gf, ok := rt.FieldByName(f.Name)
		if !ok {
			return fmt.Errorf("%s: Go type %v has no field %s", st.Name, rt, f.Name)
		}
		if err := checkType(gf.Type, f.Type); err != nil {
			return fmt.Errorf("%s.%s: %w", st.Name, f.Name, err)
		}
	}
	if st.FlexibleAt >= 0 {
		want["UnknownTags"] = true
		if gf, ok := rt.FieldByName("UnknownTags"); !ok || gf.Type != tagsType {
			return fmt.Errorf("%s: flexible definition but Go type %v has no UnknownTags", st.Name, rt)
		}
	}
	for i := 0; i < rt.NumField(); i++ {
		if !want[rt.Field(i).Name] {
			return fmt.Errorf("%s: Go type %v has field %s that the definition does not have", st.Name, rt, rt.Field(i).Name)
		}
	}
	return nil
}

func checkType(gt reflect.Type, t *krammar.Type) error {
	bad := func() error { return fmt.Errorf("definition type %v does not map to Go type %v", t.Kind, gt) }
	switch t.Kind {
	case krammar.KBool:
		if gt.Kind() != reflect.Bool {
			return bad()
		}
	case krammar.KInt8:
		if gt.Kind() != reflect.Int8 {
			return bad()
		}
	case krammar.KInt16:
		if gt.Kind() != reflect.Int16 {
			return bad()
		}
	case krammar.KUint16:
		if gt.Kind() != reflect.Uint16 {
			return bad()
		}
	case krammar.KInt32, krammar.KVarint:
		if gt.Kind() != reflect.Int32 {
			return bad()
		}
	case krammar.KUint32:
		if gt.Kind() != reflect.Uint32 {
			return bad()
		}
	case krammar.KInt64, krammar.KVarlong:
		if gt.Kind() != reflect.Int64 {
			return bad()
		}
	case krammar.KFloat64:
		if gt.Kind() != reflect.Float64 {
			return bad()
		}
	case krammar.KUuid:
		if gt.Kind() != reflect.Array || gt.Len() != 16 || gt.Elem().Kind() != reflect.Uint8 {
			return bad()
		}
	case krammar.KString, krammar.KVarintString:
		if gt.Kind() != reflect.String {
			return bad()
		}
	case krammar.KNullableString:
		if gt.Kind() != reflect.Pointer || gt.Elem().Kind() != reflect.String {
			return bad()
		}
	case krammar.KBytes, krammar.KNullableBytes, krammar.KVarintBytes, krammar.KLengthFieldMinus:
		if gt.Kind() != reflect.Slice || gt.Elem().Kind() != reflect.Uint8 {
			return bad()
		}
	case krammar.KArray:
		if gt.Kind() != reflect.Slice {
			return bad()
		}
		return checkType(gt.Elem(), t.Elem)
	case krammar.KStruct:
		if t.NullableStruct {
			if gt.Kind() != reflect.Pointer {
				return bad()
			}
			gt = gt.Elem()
		}
		if gt.Kind() != reflect.Struct || t.Struct == nil {
			return bad()
		}
		return CheckShape(gt, t.Struct, false)
	default:
		return bad()
	}
	return nil
}

// Fill sets every field of the Go struct rv (addressable) from v.
func Fill(rv reflect.Value, st *krammar.Struct, v *krammar.StructVal) error {
	for i, f := range st.Fields {
		fv, ok := v.Get(i)
		if !ok {
			continue
		}
		if err := fillValue(rv.FieldByName(f.Name), f.Type, fv); err != nil {
			return fmt.Errorf("%s.%s: %w", st.Name, f.Name, err)
		}
	}
	if len(v.Unknown) > 0 && st.FlexibleAt >= 0 {
		tags := rv.FieldByName("UnknownTags").Addr().Interface().(*kmsg.Tags)
		for _, u := range v.Unknown {
			tags.Set(u.Tag, append([]byte{}, u.Data...))
		}
	}
	return nil
}

func fillValue(dst reflect.Value, t *krammar.Type, v any) error {
	if _, isNull := v.(krammar.Null); isNull {
		dst.Set(reflect.Zero(dst.Type()))
		return nil
	}
	switch t.Kind {
	case krammar.KBool:
		dst.SetBool(v.(bool))
	case krammar.KInt8, krammar.KInt16, krammar.KInt32, krammar.KInt64, krammar.KVarint, krammar.KVarlong:
		dst.SetInt(v.(int64))
	case krammar.KUint16, krammar.KUint32:
		dst.SetUint(uint64(v.(int64)))
	case krammar.KFloat64:
		dst.SetFloat(v.(float64))
	case krammar.KUuid:
		u := v.([16]byte)
		reflect.Copy(dst, reflect.ValueOf(u[:]))
	case krammar.KString, krammar.KVarintString:
		dst.SetString(v.(string))
	case krammar.KNullableString:
		s := v.(string)
		dst.Set(reflect.ValueOf(&s))
	case krammar.KBytes, krammar.KNullableBytes, krammar.KVarintBytes, krammar.KLengthFieldMinus:
		b := v.([]byte)
		dst.SetBytes(append(make([]byte, 0, len(b)), b...))
	case krammar.KArray:
		a := v.([]any)
		s := reflect.MakeSlice(dst.Type(), len(a), len(a))
		for i := range a {
			if err := fillValue(s.Index(i), t.Elem, a[i]); err != nil {
				return fmt.Errorf("[%d]: %w", i, err)
			}
		}
		dst.Set(s)
	case krammar.KStruct:
		sv := v.(*krammar.StructVal)
		if t.NullableStruct {
			p := reflect.New(dst.Type().Elem())
			if err := Fill(p.Elem(), t.Struct, sv); err != nil {
				return err
			}
			dst.Set(p)
			return nil
		}
		return Fill(dst, t.Struct, sv)
	default:
		return fmt.Errorf("cannot fill kind %v", t.Kind)
	}
	return nil
}

// Extract reads the Go struct rv (addressable) into the value model in
// canonical form: kinds that can be null (at any version) map nil to Null,
// every other slice kind maps nil to empty.
func Extract(rv reflect.Value, st *krammar.Struct) *krammar.StructVal {
	out := krammar.NewStructVal(st)
	for i, f := range st.Fields {
		out.V[i] = extractValue(rv.FieldByName(f.Name), f.Type)
	}
	if st.FlexibleAt >= 0 {
		tags := rv.FieldByName("UnknownTags").Addr().Interface().(*kmsg.Tags)
		tags.Each(func(k uint32, val []byte) {
			out.Unknown = append(out.Unknown, krammar.RawTag{Tag: k, Data: append([]byte{}, val...)})
		})
	}
	return out
}

func extractValue(src reflect.Value, t *krammar.Type) any {
	switch t.Kind {
	case krammar.KBool:
		return src.Bool()
	case krammar.KInt8, krammar.KInt16, krammar.KInt32, krammar.KInt64, krammar.KVarint, krammar.KVarlong:
		return src.Int()
	case krammar.KUint16, krammar.KUint32:
		return int64(src.Uint())
	case krammar.KFloat64:
		return src.Float()
	case krammar.KUuid:
		var u [16]byte
		reflect.Copy(reflect.ValueOf(u[:]), src)
		return u
	case krammar.KString, krammar.KVarintString:
		return src.String()
	case krammar.KNullableString:
		if src.IsNil() {
			return krammar.Null{}
		}
		return src.Elem().String()
	case krammar.KBytes, krammar.KLengthFieldMinus:
		return append([]byte{}, src.Bytes()...)
	case krammar.KNullableBytes, krammar.KVarintBytes:
		if src.IsNil() {
			return krammar.Null{}
		}
		return append([]byte{}, src.Bytes()...)
	case krammar.KArray:
		if src.IsNil() && t.ArrKind == krammar.ArrNullable {
			return krammar.Null{}
		}
		a := make([]any, src.Len())
		for i := range a {
			a[i] = extractValue(src.Index(i), t.Elem)
		}
		return a
	case krammar.KStruct:
		if t.NullableStruct {
			if src.IsNil() {
				return krammar.Null{}
			}
			return Extract(src.Elem(), t.Struct)
		}
		return Extract(src, t.Struct)
	}
	return nil
}

// Canon brings a value of the model into the same canonical form Extract
// produces (nil byte slices become empty).
func Canon(t *krammar.Type, v any) any {
	if _, isNull := v.(krammar.Null); isNull {
		return v
	}
	switch t.Kind {
	case krammar.KBytes, krammar.KLengthFieldMinus, krammar.KNullableBytes, krammar.KVarintBytes:
		b, _ := v.([]byte)
		return append([]byte{}, b...)
	case krammar.KArray:
		a, _ := v.([]any)
		out := make([]any, len(a))
		for i := range a {
			out[i] = Canon(t.Elem, a[i])
		}
		return out
	case krammar.KStruct:
		sv, _ := v.(*krammar.StructVal)
		if sv == nil {
			return v
		}
		return CanonStruct(t.Struct, sv)
	}
	return v
}

// CanonStruct is Canon for a struct value.
func CanonStruct(st *krammar.Struct, v *krammar.StructVal) *krammar.StructVal {
	out := krammar.NewStructVal(st)
	out.Unknown = krammar.SortedTags(v.Unknown)
	for i, f := range st.Fields {
		fv, ok := v.Get(i)
		if !ok {
			fv = krammar.DefaultOf(f.Type)
		}
		out.V[i] = Canon(f.Type, fv)
	}
	return out
}

// Diff returns the path and the two values of the first difference between
// two canonical struct values, or "" if they are equal. A non-nullable
// version of a nullable array holds no null, so Null and empty are the same
// there; that is the caller's concern (values are generated accordingly).
func Diff(st *krammar.Struct, want, got *krammar.StructVal, path string) string {
	if krammar.Equal(want, got) {
		return ""
	}
	if d := diffStruct(st, want, got, path); d != "" {
		return d
	}
	return path + ": values differ (difference not located)"
}

func diffStruct(st *krammar.Struct, want, got *krammar.StructVal, path string) string {
	for i, f := range st.Fields {
		if d := diffValue(f.Type, want.V[i], got.V[i], path+"."+f.Name); d != "" {
			return d
		}
	}
	w, g := krammar.SortedTags(want.Unknown), krammar.SortedTags(got.Unknown)
	if len(w) != len(g) {
		return fmt.Sprintf("%s.UnknownTags: want %d tags, got %d", path, len(w), len(g))
	}
	for i := range w {
		if w[i].Tag != g[i].Tag || !bytes.Equal(w[i].Data, g[i].Data) {
			return fmt.Sprintf("%s.UnknownTags[%d]: want tag %d data %x, got tag %d data %x", path, i, w[i].Tag, w[i].Data, g[i].Tag, g[i].Data)
		}
	}
	return ""
}

func short(v any) string {
	s := fmt.Sprintf("%v", v)
	if b, ok := v.([]byte); ok {
		s = fmt.Sprintf("bytes(%d)%x", len(b), b)
	}
	if len(s) > 120 {
		s = s[:120] + "..."
	}
	return s
}

func diffValue(t *krammar.Type, want, got any, path string) string {
	_, wn := want.(krammar.Null)
	_, gn := got.(krammar.Null)
	if wn || gn {
		if wn != gn {
			return fmt.Sprintf("%s: want %s, got %s", path, short(want), short(got))
		}
		return ""
	}
	switch t.Kind {
	case krammar.KArray:
		w, _ := want.([]any)
		g, _ := got.([]any)
		if len(w) != len(g) {
			return fmt.Sprintf("%s: want %d elements, got %d", path, len(w), len(g))
		}
		for i := range w {
			if d := diffValue(t.Elem, w[i], g[i], fmt.Sprintf("%s[%d]", path, i)); d != "" {
				return d
			}
		}
		return ""
	case krammar.KStruct:
		w, _ := want.(*krammar.StructVal)
		g, _ := got.(*krammar.StructVal)
		if w == nil || g == nil {
			return fmt.Sprintf("%s: want %v, got %v", path, want, got)
		}
		return diffStruct(t.Struct, w, g, path)
	case krammar.KFloat64:
		w, _ := want.(float64)
		g, _ := got.(float64)
		if math.Float64bits(w) != math.Float64bits(g) {
			return fmt.Sprintf("%s: want %v, got %v", path, w, g)
		}
		return ""
	}
	if !krammar.Equal(want, got) {
		return fmt.Sprintf("%s: want %s, got %s", path, short(want), short(got))
	}
	return ""
}
