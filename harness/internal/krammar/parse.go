package krammar

import (
	"fmt"
	"os"
	"path/filepath"
	"regexp"
	"sort"
	"strconv"
	"strings"
)

var scalarKinds = map[string]Kind{
	"bool": KBool, "int8": KInt8, "int16": KInt16, "uint16": KUint16, "int32": KInt32, "uint32": KUint32,
	"int64": KInt64, "float64": KFloat64, "varint": KVarint, "varlong": KVarlong, "uuid": KUuid,
	"string": KString, "nullable-string": KNullableString, "bytes": KBytes, "nullable-bytes": KNullableBytes,
	"varint-string": KVarintString, "varint-bytes": KVarintBytes,
}

var (
	reVersionComment = regexp.MustCompile(`^(?:v(\d+)(\+|-v(\d+))(?:, tag (\d+))?|tag (\d+))$`)
	reThrottle       = regexp.MustCompile(`^ThrottleMillis(?:\((\d+)\))?(?: // v(\d+)\+)?$`)
	reTimeout        = regexp.MustCompile(`^TimeoutMillis(?:\((\d+)\))?(?: // v(\d+)\+)?$`)
	reNullableStrV   = regexp.MustCompile(`^nullable-string-v(\d+)\+$`)
	reNullableArrV   = regexp.MustCompile(`^nullable-v(\d+)\+\[`)
	reLenFieldMinus  = regexp.MustCompile(`^length-field-minus => ([A-Za-z0-9]+) - (\d+)$`)
	reIdent          = regexp.MustCompile(`^[A-Za-z][A-Za-z0-9]*$`)
	reEnumHead       = regexp.MustCompile(`^([A-Za-z][A-Za-z0-9]*) ([a-z0-9]+) (camelcase )?\($`)
	reEnumValue      = regexp.MustCompile(`^  (-?\d+): ([A-Za-z_][A-Za-z_0-9]*)$`)
	reTopModifierKey = regexp.MustCompile(`^key (\d+)$`)
	reTopModifierMax = regexp.MustCompile(`^max version (\d+)$`)
	reModifierFlex   = regexp.MustCompile(`^flexible v(\d+)\+$`)
)

// Load parses every file of a definitions directory.
func Load(dir string) (*Schema, error) {
	ents, err := os.ReadDir(dir)
	if err != nil {
		return nil, err
	}
	sc := &Schema{Structs: map[string]*Struct{}, Enums: map[string]*Enum{}}
	var names []string
	for _, e := range ents {
		if e.IsDir() || strings.HasPrefix(e.Name(), ".") {
			continue
		}
		names = append(names, e.Name())
	}
	sort.Strings(names)
	sc.Files = names
	// enums first: struct fields refer to them
	for _, n := range names {
		if n != "enums" {
			continue
		}
		raw, err := os.ReadFile(filepath.Join(dir, n))
		if err != nil {
			return nil, err
		}
		if err := sc.parseEnums(n, string(raw)); err != nil {
			return nil, err
		}
	}
	for _, n := range names {
		if n == "enums" {
			continue
		}
		raw, err := os.ReadFile(filepath.Join(dir, n))
		if err != nil {
			return nil, err
		}
		if err := sc.parseFile(n, string(raw)); err != nil {
			return nil, err
		}
	}
	sc.resolve()
	return sc, nil
}

func (sc *Schema) parseEnums(file, src string) error {
	lines := strings.Split(src, "\n")
	var cur *Enum
	for i, ln := range lines {
		switch {
		case strings.HasPrefix(strings.TrimLeft(ln, " "), "//"), ln == "":
			continue
		case cur == nil:
			m := reEnumHead.FindStringSubmatch(ln)
			if m == nil {
				return fmt.Errorf("%s:%d: not an enum header: %q", file, i+1, ln)
			}
			k, ok := scalarKinds[m[2]]
			if !ok {
				return fmt.Errorf("%s:%d: enum %s has unknown backing type %q", file, i+1, m[1], m[2])
			}
			cur = &Enum{Name: m[1], Kind: k, CamelCase: m[3] != "", Values: map[int64]string{}}
		case ln == ")":
			sc.Enums[cur.Name] = cur
			cur = nil
		default:
			m := reEnumValue.FindStringSubmatch(ln)
			if m == nil {
				return fmt.Errorf("%s:%d: not an enum value: %q", file, i+1, ln)
			}
			n, _ := strconv.ParseInt(m[1], 10, 64)
			cur.Values[n] = m[2]
		}
	}
	if cur != nil {
		return fmt.Errorf("%s: unterminated enum %s", file, cur.Name)
	}
	return nil
}

// frame is one open struct while reading indented field lines.
type frame struct {
	st    *Struct
	level int // fields of st are indented 2*level spaces
}

func (sc *Schema) parseFile(file, src string) error {
	lines := strings.Split(src, "\n")
	var root *Struct
	var stack []frame
	var lastRequest *Struct
	for i := 0; i < len(lines); i++ {
		ln := lines[i]
		lineno := i + 1
		if ln == "" {
			root, stack = nil, nil
			continue
		}
		trim := strings.TrimLeft(ln, " ")
		indent := len(ln) - len(trim)
		if strings.HasPrefix(trim, "//") {
			continue
		}
		if indent == 0 {
			st, err := sc.parseHeader(file, lineno, ln, lastRequest)
			if err != nil {
				return err
			}
			if st.IsRequest {
				lastRequest = st
			} else {
				lastRequest = nil
			}
			if _, dup := sc.Structs[st.Name]; dup {
				st.unsupported("duplicate definition name %s", st.Name)
			}
			sc.Structs[st.Name] = st
			sc.Order = append(sc.Order, st)
			root = st
			stack = []frame{{st, 1}}
			continue
		}
		if root == nil {
			return fmt.Errorf("%s:%d: field line outside a definition: %q", file, lineno, ln)
		}
		if indent%2 != 0 || strings.HasSuffix(ln, " ") {
			root.unsupported("line %d: bad indentation or trailing space", lineno)
			continue
		}
		level := indent / 2
		for len(stack) > 0 && stack[len(stack)-1].level > level {
			stack = stack[:len(stack)-1]
		}
		if len(stack) == 0 || stack[len(stack)-1].level != level {
			root.unsupported("line %d: indentation does not match an open struct", lineno)
			continue
		}
		cur := stack[len(stack)-1].st
		f, opened := sc.parseField(root, cur, lineno, trim)
		if f == nil {
			continue
		}
		for _, o := range cur.Fields {
			if o.Name == f.Name {
				root.unsupported("line %d: duplicate field %s", lineno, f.Name)
			}
		}
		cur.Fields = append(cur.Fields, f)
		if opened != nil {
			stack = append(stack, frame{opened, level + 1})
		}
	}
	return nil
}

func (sc *Schema) parseHeader(file string, lineno int, ln string, lastRequest *Struct) (*Struct, error) {
	idx := strings.Index(ln, " =>")
	if idx <= 0 {
		return nil, fmt.Errorf("%s:%d: not a definition header: %q", file, lineno, ln)
	}
	st := &Struct{Name: ln[:idx], File: file, Line: lineno, Key: -1, FlexibleAt: -1}
	if !reIdent.MatchString(st.Name) {
		return nil, fmt.Errorf("%s:%d: bad definition name %q", file, lineno, st.Name)
	}
	rest := strings.TrimPrefix(ln[idx+3:], " ")
	var mods []string
	if rest != "" {
		mods = strings.Split(rest, ", ")
	}
	switch {
	case len(mods) > 0 && mods[0] == "not top level":
		st.NotTopLevel = true
		for _, m := range mods[1:] {
			switch {
			case m == "with version field":
				st.WithVersionField = true
			case m == "no encoding":
				st.NoEncoding = true
			case reModifierFlex.MatchString(m):
				st.FlexibleAt, _ = strconv.Atoi(reModifierFlex.FindStringSubmatch(m)[1])
			default:
				st.unsupported("header modifier %q", m)
			}
		}
		if st.WithVersionField && st.NoEncoding {
			st.unsupported("both 'with version field' and 'no encoding'")
		}
	case len(mods) == 0:
		// a response: must follow its request
		if !strings.HasSuffix(st.Name, "Response") || lastRequest == nil ||
			lastRequest.Name != strings.TrimSuffix(st.Name, "Response")+"Request" {
			st.unsupported("definition without modifiers that does not follow its request")
			st.NotTopLevel = true
			break
		}
		st.TopLevel, st.IsResponse = true, true
		st.Key, st.MaxVersion, st.FlexibleAt = lastRequest.Key, lastRequest.MaxVersion, lastRequest.FlexibleAt
		st.Unsupported = append(st.Unsupported, headerProblems(lastRequest)...)
	default:
		st.TopLevel, st.IsRequest = true, true
		if !strings.HasSuffix(st.Name, "Request") {
			st.unsupported("top level definition with modifiers is not named *Request")
		}
		haveKey, haveMax := false, false
		for _, m := range mods {
			switch {
			case reTopModifierKey.MatchString(m):
				st.Key, _ = strconv.Atoi(reTopModifierKey.FindStringSubmatch(m)[1])
				haveKey = true
			case reTopModifierMax.MatchString(m):
				st.MaxVersion, _ = strconv.Atoi(reTopModifierMax.FindStringSubmatch(m)[1])
				haveMax = true
			case reModifierFlex.MatchString(m):
				st.FlexibleAt, _ = strconv.Atoi(reModifierFlex.FindStringSubmatch(m)[1])
			case m == "admin" || m == "group coordinator" || m == "txn coordinator" || m == "share coordinator":
				st.Coordinator = m
			default:
				st.unsupported("header modifier %q", m)
			}
		}
		if !haveKey || !haveMax {
			st.unsupported("request header lacks key or max version")
		}
	}
	return st, nil
}

func headerProblems(req *Struct) []string {
	var out []string
	for _, u := range req.Unsupported {
		if strings.HasPrefix(u, "header modifier") || strings.HasPrefix(u, "request header") {
			out = append(out, "request: "+u)
		}
	}
	return out
}

// parseField reads one field line (without indentation). It returns the
// field and, if the field opens an anonymous struct, that struct.
func (sc *Schema) parseField(root, cur *Struct, lineno int, ln string) (*Field, *Struct) {
	f := &Field{MaxVer: -1, Tag: -1, Line: lineno}
	if !strings.Contains(ln, ": ") || strings.HasPrefix(ln, "ThrottleMillis") {
		if m := reThrottle.FindStringSubmatch(ln); m != nil {
			f.Name = "ThrottleMillis"
			f.Type = &Type{Kind: KInt32, Special: "throttle"}
			if m[1] != "" {
				f.Type.ThrottleSwitch, _ = strconv.Atoi(m[1])
			}
			if m[2] != "" {
				f.MinVer, _ = strconv.Atoi(m[2])
			}
			return f, nil
		}
		if m := reTimeout.FindStringSubmatch(ln); m != nil {
			f.Name = "TimeoutMillis"
			f.Type = &Type{Kind: KInt32, Special: "timeout", HasDefault: true, Default: int64(15000)}
			if m[1] != "" {
				n, _ := strconv.ParseInt(m[1], 10, 64)
				f.Type.Default = n
			}
			if m[2] != "" {
				f.MinVer, _ = strconv.Atoi(m[2])
			}
			return f, nil
		}
		root.unsupported("line %d: not a field: %q", lineno, ln)
		return nil, nil
	}
	colon := strings.Index(ln, ": ")
	f.Name = ln[:colon]
	if !reIdent.MatchString(f.Name) {
		root.unsupported("line %d: bad field name %q", lineno, f.Name)
		return nil, nil
	}
	typ := ln[colon+2:]
	if c := strings.Index(typ, " // "); c >= 0 {
		m := reVersionComment.FindStringSubmatch(typ[c+4:])
		typ = typ[:c]
		switch {
		case m == nil:
			root.unsupported("line %d: field %s: unreadable version comment", lineno, f.Name)
		case m[5] != "":
			f.Tag, _ = strconv.Atoi(m[5])
		default:
			f.MinVer, _ = strconv.Atoi(m[1])
			if m[3] != "" {
				f.MaxVer, _ = strconv.Atoi(m[3])
				if f.MaxVer < f.MinVer {
					root.unsupported("line %d: field %s: max version below min version", lineno, f.Name)
				}
			}
			if m[4] != "" {
				// "vN+, tag M": the README does not say whether the field is
				// also written inline; not interpreted.
				f.Tag, _ = strconv.Atoi(m[4])
				root.unsupported("line %d: field %s: version gate combined with a tag", lineno, f.Name)
			}
		}
	} else if strings.Contains(typ, "//") {
		root.unsupported("line %d: field %s: malformed comment", lineno, f.Name)
	}
	t, opened := sc.parseType(root, cur, f.Name, lineno, typ, true)
	if t == nil {
		return nil, nil
	}
	f.Type = t
	return f, opened
}

func (sc *Schema) parseType(root, cur *Struct, fname string, lineno int, typ string, allowStruct bool) (*Type, *Struct) {
	bad := func(format string, a ...any) (*Type, *Struct) {
		root.unsupported("line %d: field %s: %s", lineno, fname, fmt.Sprintf(format, a...))
		return nil, nil
	}
	newAnon := func(suffix string) *Struct {
		return &Struct{
			Name: cur.Name + "." + suffix, File: cur.File, Line: lineno, Key: cur.Key, MaxVersion: cur.MaxVersion,
			FlexibleAt: cur.FlexibleAt, Anonymous: true,
		}
	}
	// arrays
	arr := &Type{Kind: KArray}
	isArr := true
	body := typ
	switch {
	case strings.HasPrefix(typ, "varint["):
		arr.ArrKind, body = ArrVarint, typ[len("varint"):]
	case reNullableArrV.MatchString(typ):
		m := reNullableArrV.FindStringSubmatch(typ)
		arr.ArrKind = ArrNullable
		arr.NullableFrom, _ = strconv.Atoi(m[1])
		body = typ[len(m[0])-1:]
	case strings.HasPrefix(typ, "nullable["):
		arr.ArrKind, body = ArrNullable, typ[len("nullable"):]
	case strings.HasPrefix(typ, "["):
	default:
		isArr = false
	}
	if isArr {
		end := strings.LastIndexByte(body, ']')
		if end < 0 {
			return bad("unterminated array type %q", typ)
		}
		inner, tail := body[1:end], body[end+1:]
		switch tail {
		case "":
		case "(null)":
			if arr.ArrKind != ArrNullable {
				return bad("null default on a non-nullable array")
			}
			arr.HasDefault, arr.Default = true, Null{}
		default:
			return bad("unexpected text after array type: %q", tail)
		}
		if strings.HasPrefix(inner, "=>") {
			if !allowStruct {
				return bad("anonymous struct inside a nested array")
			}
			hint := inner[2:]
			if hint != "" && !reIdent.MatchString(hint) {
				return bad("bad name hint %q", hint)
			}
			st := newAnon(fname + "[]")
			arr.Elem = &Type{Kind: KStruct, Struct: st}
			return arr, st
		}
		if inner == "nullable=>" {
			return bad("array of nullable anonymous structs")
		}
		et, _ := sc.parseType(root, cur, fname, lineno, inner, false)
		if et == nil {
			return nil, nil
		}
		if et.HasDefault {
			return bad("default on an array element type")
		}
		arr.Elem = et
		return arr, nil
	}
	switch typ {
	case "=>", "nullable=>":
		if !allowStruct {
			return bad("anonymous struct not allowed here")
		}
		st := newAnon(fname)
		return &Type{Kind: KStruct, Struct: st, NullableStruct: typ == "nullable=>"}, st
	}
	if m := reLenFieldMinus.FindStringSubmatch(typ); m != nil {
		n, _ := strconv.Atoi(m[2])
		var ref *Field
		for _, o := range cur.Fields {
			if o.Name == m[1] {
				ref = o
			}
		}
		if ref == nil || ref.Type.Kind != KInt32 {
			return bad("length-field-minus refers to %q which is not an earlier int32 field", m[1])
		}
		return &Type{Kind: KLengthFieldMinus, LenField: m[1], LenMinus: n}, nil
	}
	if m := reNullableStrV.FindStringSubmatch(typ); m != nil {
		t := &Type{Kind: KNullableString}
		t.NullableFrom, _ = strconv.Atoi(m[1])
		return t, nil
	}
	// optional (default)
	def, hasDef := "", false
	if p := strings.IndexByte(typ, '('); p >= 0 {
		if !strings.HasSuffix(typ, ")") {
			return bad("malformed default in %q", typ)
		}
		def, hasDef = typ[p+1:len(typ)-1], true
		typ = typ[:p]
	}
	t := &Type{}
	switch {
	case strings.HasPrefix(typ, "enum-"):
		e, ok := sc.Enums[typ[len("enum-"):]]
		if !ok {
			return bad("unknown enum %q", typ)
		}
		t.Kind, t.Enum = e.Kind, e.Name
	default:
		k, ok := scalarKinds[typ]
		if ok {
			t.Kind = k
			break
		}
		if !reIdent.MatchString(typ) {
			return bad("unreadable type %q", typ)
		}
		if hasDef {
			return bad("default on a struct type")
		}
		// a named struct, resolved once every file is read
		return &Type{Kind: KStruct, named: typ}, nil
	}
	if hasDef {
		if err := setDefault(t, def); err != nil {
			return bad("%v", err)
		}
	}
	return t, nil
}

func setDefault(t *Type, def string) error {
	t.HasDefault = true
	switch t.Kind {
	case KBool:
		switch def {
		case "true":
			t.Default = true
		case "false":
			t.Default = false
		default:
			return fmt.Errorf("bool default %q", def)
		}
	case KInt8, KInt16, KInt32, KInt64, KVarint, KVarlong, KUint16, KUint32:
		bits := map[Kind]int{KInt8: 8, KInt16: 16, KInt32: 32, KInt64: 64, KVarint: 32, KVarlong: 64, KUint16: 17, KUint32: 33}[t.Kind]
		n, err := strconv.ParseInt(def, 0, bits)
		if err != nil {
			return fmt.Errorf("integer default %q: %v", def, err)
		}
		if (t.Kind == KUint16 || t.Kind == KUint32) && n < 0 {
			return fmt.Errorf("negative default %q on an unsigned type", def)
		}
		t.Default = n
	case KFloat64:
		x, err := strconv.ParseFloat(def, 64)
		if err != nil {
			return fmt.Errorf("float default %q: %v", def, err)
		}
		t.Default = x
	case KNullableString, KNullableBytes:
		if def != "null" {
			return fmt.Errorf("non-null default %q on a nullable type", def)
		}
		t.Default = Null{}
	default:
		return fmt.Errorf("default %q on type %v", def, t.Kind)
	}
	return nil
}

// resolve links named struct references, inherits flexibility checks and
// propagates unsupported reasons to every definition that embeds them.
func (sc *Schema) resolve() {
	state := map[*Struct]int{} // 1 visiting, 2 done
	var visit func(root, st *Struct, encl *Struct)
	var visitType func(root, st *Struct, f *Field, t *Type)
	visitType = func(root, st *Struct, f *Field, t *Type) {
		if t == nil {
			return
		}
		if t.Kind == KArray {
			visitType(root, st, f, t.Elem)
			return
		}
		if t.Kind != KStruct {
			return
		}
		if t.named != "" && t.Struct == nil {
			ref, ok := sc.Structs[t.named]
			switch {
			case !ok:
				root.unsupported("line %d: field %s: unknown type %q", f.Line, f.Name, t.named)
				return
			case ref.TopLevel:
				root.unsupported("line %d: field %s: embeds top level definition %s", f.Line, f.Name, t.named)
				return
			}
			t.Struct = ref
		}
		if t.Struct == nil {
			return
		}
		if !t.Struct.Anonymous {
			// a named definition used as a field: every nested struct of a
			// message is flexible exactly when the message is, so the named
			// definition must declare the same first flexible version.
			if t.Struct.FlexibleAt != root.FlexibleAt {
				root.unsupported("line %d: field %s: embedded %s declares flexible v%d but %s is flexible from v%d",
					f.Line, f.Name, t.Struct.Name, t.Struct.FlexibleAt, root.Name, root.FlexibleAt)
			}
			if t.Struct.WithVersionField {
				root.unsupported("line %d: field %s: embedded %s has its own version field", f.Line, f.Name, t.Struct.Name)
			}
			if state[t.Struct] == 1 {
				root.unsupported("line %d: field %s: circular definition", f.Line, f.Name)
				return
			}
			visit(t.Struct, t.Struct, nil)
			for _, u := range t.Struct.Unsupported {
				root.unsupported("via %s: %s", t.Struct.Name, u)
			}
			return
		}
		visit(root, t.Struct, st)
	}
	visit = func(root, st *Struct, encl *Struct) {
		if !st.Anonymous {
			if state[st] != 0 {
				return
			}
			state[st] = 1
			defer func() { state[st] = 2 }()
		}
		tags := map[int]bool{}
		for i, f := range st.Fields {
			if f.Tag >= 0 {
				if tags[f.Tag] {
					root.unsupported("line %d: duplicate tag %d", f.Line, f.Tag)
				}
				tags[f.Tag] = true
				if st.FlexibleAt < 0 {
					root.unsupported("line %d: tagged field %s in a definition that is never flexible", f.Line, f.Name)
				}
			}
			if st.WithVersionField && i == 0 && (f.Name != "Version" || f.Type.Kind != KInt16 || f.Tag >= 0 || f.MinVer != 0 || f.MaxVer != -1) {
				root.unsupported("'with version field' but the first field is not Version: int16")
			}
			if root.TopLevel && (f.MinVer > root.MaxVersion || f.MaxVer > root.MaxVersion) {
				root.unsupported("line %d: field %s gated on a version above max version %d", f.Line, f.Name, root.MaxVersion)
			}
			visitType(root, st, f, f.Type)
		}
		for i := 0; i < len(tags); i++ {
			if !tags[i] {
				root.unsupported("tags of %s are not 0..%d", st.Name, len(tags)-1)
				break
			}
		}
		if st.WithVersionField && len(st.Fields) == 0 {
			root.unsupported("'with version field' without fields")
		}
	}
	for _, st := range sc.Order {
		visit(st, st, nil)
	}
	for _, st := range sc.Order {
		st.Unsupported = dedup(st.Unsupported)
	}
}

func dedup(in []string) []string {
	seen := map[string]bool{}
	var out []string
	for _, s := range in {
		if !seen[s] {
			seen[s] = true
			out = append(out, s)
		}
	}
	return out
}
