package krammar

import "encoding/binary"

// Scan walks an arbitrary byte string along a definition the way a lenient
// decoder does and reports the largest tagged-field count it would read in a
// struct that has no known tags. It is a screening aid, not an oracle: C16
// uses it to set aside inputs whose tag count makes kmsg's tag loop spin
// (internalReadTags iterates the claimed count even after the input is
// exhausted; 2^32 iterations take about a minute), because CPU time is not
// part of that property and a spinning goroutine cannot be stopped. Nothing
// is judged from its result.
//
// The walk follows the documented behaviour of kbin.Reader: a read past the
// end invalidates the reader (the walk stops there: every later count reads
// as zero); array lengths larger than the remaining input invalidate it;
// non-nullable bytes accept -1 as empty; a nullable struct is present unless
// its flag byte is -1.
type ScanResult struct {
	MaxTaglessCount uint64 // largest tag count read in a struct without known tags
	Complete        bool   // walked to the end without invalidating the reader
}

type scanner struct {
	src      []byte
	bad      bool
	version  int
	flexible bool
	res      *ScanResult
}

func (s *scanner) span(n int64) []byte {
	if s.bad || n < 0 || int64(len(s.src)) < n {
		s.bad, s.src = true, nil
		return nil
	}
	out := s.src[:n]
	s.src = s.src[n:]
	return out
}

func (s *scanner) fixed(n int) uint64 {
	b := s.span(int64(n))
	if b == nil && n > 0 {
		return 0
	}
	var x uint64
	for _, c := range b {
		x = x<<8 | uint64(c)
	}
	return x
}

func (s *scanner) uvarint() uint32 {
	if s.bad {
		return 0
	}
	var x uint32
	for i := 0; i < 5; i++ {
		if i >= len(s.src) {
			s.bad, s.src = true, nil
			return 0
		}
		c := s.src[i]
		if i == 4 {
			if c > 0x0f {
				s.bad, s.src = true, nil
				return 0
			}
			x |= uint32(c) << 28
			s.src = s.src[5:]
			return x
		}
		x |= uint32(c&0x7f) << (7 * uint(i))
		if c&0x80 == 0 {
			s.src = s.src[i+1:]
			return x
		}
	}
	return 0
}

func (s *scanner) varint() int32 {
	u := s.uvarint()
	return int32(u>>1) ^ -int32(u&1)
}

func (s *scanner) varlong() {
	if s.bad {
		return
	}
	for i := 0; i < 10; i++ {
		if i >= len(s.src) {
			s.bad, s.src = true, nil
			return
		}
		c := s.src[i]
		if i == 9 {
			if c > 1 {
				s.bad, s.src = true, nil
				return
			}
			s.src = s.src[10:]
			return
		}
		if c&0x80 == 0 {
			s.src = s.src[i+1:]
			return
		}
	}
}

// Scan walks input as a message of definition st. For definitions with a
// version field the version is taken from the input.
func Scan(st *Struct, version int, in []byte) ScanResult {
	var res ScanResult
	if len(st.Unsupported) > 0 || st.NoEncoding {
		return res
	}
	s := &scanner{src: in, version: version, res: &res}
	if st.WithVersionField {
		if len(in) < 2 {
			return res
		}
		s.version = int(int16(binary.BigEndian.Uint16(in)))
	}
	s.flexible = st.Flexible(s.version)
	s.structBody(st)
	res.Complete = !s.bad
	return res
}

func (s *scanner) structBody(st *Struct) {
	for _, f := range st.Fields {
		if s.bad {
			return
		}
		if !f.Present(s.version) {
			continue
		}
		s.value(f.Type, st)
	}
	if s.bad || !s.flexible || st.FlexibleAt < 0 {
		return
	}
	known := st.KnownTags()
	n := s.uvarint()
	if len(known) == 0 && uint64(n) > s.res.MaxTaglessCount {
		s.res.MaxTaglessCount = uint64(n)
	}
	for ; n > 0 && !s.bad; n-- {
		key := s.uvarint()
		size := s.uvarint()
		data := s.span(int64(size))
		if s.bad {
			return
		}
		if int(key) < len(known) {
			sub := &scanner{src: data, version: s.version, flexible: true, res: s.res}
			sub.value(known[key].Type, st)
			if sub.bad {
				s.bad, s.src = true, nil
				return
			}
		}
	}
}

func (s *scanner) value(t *Type, parent *Struct) {
	switch t.Kind {
	case KBool, KInt8:
		s.fixed(1)
	case KInt16, KUint16:
		s.fixed(2)
	case KInt32, KUint32:
		s.fixed(4)
	case KInt64, KFloat64:
		s.fixed(8)
	case KUuid:
		s.span(16)
	case KVarint:
		s.uvarint()
	case KVarlong:
		s.varlong()
	case KString, KNullableString:
		nullable := t.Kind == KNullableString && s.version >= t.NullableFrom
		var l int64
		if s.flexible {
			l = int64(s.uvarint()) - 1
		} else {
			l = int64(int16(s.fixed(2)))
		}
		if l < 0 && nullable {
			return
		}
		s.span(l)
	case KBytes, KNullableBytes:
		var l int64
		if s.flexible {
			l = int64(s.uvarint()) - 1
		} else {
			l = int64(int32(s.fixed(4)))
		}
		if l < 0 && (t.Kind == KNullableBytes || l == -1) {
			return
		}
		s.span(l)
	case KVarintString, KVarintBytes:
		l := s.varint()
		if l < 0 {
			return
		}
		s.span(int64(l))
	case KLengthFieldMinus:
		// the referenced length field was read earlier; the scanner does
		// not keep values, so it conservatively stops here
		s.bad, s.src = true, nil
	case KArray:
		var l int32
		switch {
		case t.ArrKind == ArrVarint:
			l = s.varint()
		case s.flexible:
			l = int32(s.uvarint()) - 1
		default:
			l = int32(s.fixed(4))
		}
		if s.bad {
			return
		}
		if int64(len(s.src)) < int64(l) {
			s.bad, s.src = true, nil
			return
		}
		for i := int32(0); i < l && !s.bad; i++ {
			s.value(t.Elem, parent)
		}
	case KStruct:
		if t.Struct == nil {
			s.bad = true
			return
		}
		if t.NullableStruct {
			if int8(s.fixed(1)) == -1 || s.bad {
				return
			}
		}
		s.structBody(t.Struct)
	}
}
