// Package krammar is an independent interpreter of the protocol definition
// DSL under generate/definitions (syntax: generate/README.md). It has its own
// line-oriented parser, its own value model, its own wire encoder written
// from the Kafka protocol rules (big-endian fixed width integers, zig-zag
// varints, int16/int32 length prefixes in non-flexible versions, unsigned
// varint length+1 prefixes in flexible versions, tagged field sections sorted
// by tag), and a seeded value generator. It shares no code with
// generate/parse.go or generate/gen.go and does not import kmsg.
//
// Anything in a definition that the interpreter cannot read with confidence
// is recorded in Struct.Unsupported; users skip such structs, never guess.
package krammar

import (
	"fmt"
	"sort"
)

// Kind is the wire kind of a field type.
type Kind int

const (
	KBool Kind = iota
	KInt8
	KInt16
	KUint16
	KInt32
	KUint32
	KInt64
	KFloat64
	KVarint
	KVarlong
	KUuid
	KString
	KNullableString
	KBytes
	KNullableBytes
	KVarintString
	KVarintBytes
	KArray
	KStruct
	KLengthFieldMinus
)

var kindNames = map[Kind]string{
	KBool: "bool", KInt8: "int8", KInt16: "int16", KUint16: "uint16", KInt32: "int32", KUint32: "uint32",
	KInt64: "int64", KFloat64: "float64", KVarint: "varint", KVarlong: "varlong", KUuid: "uuid",
	KString: "string", KNullableString: "nullable-string", KBytes: "bytes", KNullableBytes: "nullable-bytes",
	KVarintString: "varint-string", KVarintBytes: "varint-bytes", KArray: "array", KStruct: "struct",
	KLengthFieldMinus: "length-field-minus",
}

func (k Kind) String() string { return kindNames[k] }

// ArrKind is the flavour of an array length prefix.
type ArrKind int

const (
	ArrNormal ArrKind = iota
	ArrNullable
	ArrVarint
)

// Null is the value of a null string / bytes / array / struct.
type Null struct{}

// Type is a field type.
type Type struct {
	Kind Kind
	Enum string // set when the field was declared enum-<Enum>

	// NullableFrom is the first version at which null is representable for
	// KNullableString (nullable-string-vN+) and nullable arrays
	// (nullable-vN+[..]); 0 means always.
	NullableFrom int

	Elem    *Type // arrays
	ArrKind ArrKind

	Struct         *Struct // KStruct
	NullableStruct bool    // nullable=>
	named          string  // unresolved named struct reference

	LenField string // length-field-minus
	LenMinus int

	HasDefault bool
	Default    any // int64, float64, bool or Null{}

	Special        string // "throttle" or "timeout" for the two macro fields
	ThrottleSwitch int
}

// Nullable reports whether null is representable at the given version.
func (t *Type) Nullable(version int) bool {
	switch t.Kind {
	case KNullableString:
		return version >= t.NullableFrom
	case KNullableBytes, KVarintBytes:
		return true
	case KArray:
		return t.ArrKind == ArrNullable && version >= t.NullableFrom
	case KStruct:
		return t.NullableStruct
	}
	return false
}

// EverNullable reports whether null is representable at some version.
func (t *Type) EverNullable() bool {
	switch t.Kind {
	case KNullableString, KNullableBytes, KVarintBytes:
		return true
	case KArray:
		return t.ArrKind == ArrNullable
	case KStruct:
		return t.NullableStruct
	}
	return false
}

// Field is one struct field.
type Field struct {
	Name   string
	Type   *Type
	MinVer int // 0 when unversioned
	MaxVer int // -1: unbounded
	Tag    int // -1: not tagged
	Line   int
}

// Struct is one struct definition (top level, named or anonymous).
type Struct struct {
	Name string
	File string
	Line int

	TopLevel   bool
	IsRequest  bool
	IsResponse bool
	Key        int
	MaxVersion int
	// FlexibleAt is the first flexible version, -1 if never flexible. For
	// anonymous structs it is inherited from the enclosing definition.
	FlexibleAt int
	Coordinator string // "admin", "group coordinator", ...

	NotTopLevel      bool
	WithVersionField bool
	NoEncoding       bool
	Anonymous        bool

	Fields []*Field

	// Unsupported lists reasons why this definition (or something nested
	// in it) could not be interpreted with confidence.
	Unsupported []string
}

// Enum is one enum of the enums file.
type Enum struct {
	Name      string
	Kind      Kind
	CamelCase bool
	Values    map[int64]string
}

// Schema is everything parsed from a definitions directory.
type Schema struct {
	Structs map[string]*Struct // named (non-anonymous) definitions
	Order   []*Struct          // in file order
	Enums   map[string]*Enum
	Files   []string
}

// Present reports whether a non-tagged field is on the wire at version.
func (f *Field) Present(version int) bool {
	if f.Tag >= 0 {
		return false
	}
	return version >= f.MinVer && (f.MaxVer < 0 || version <= f.MaxVer)
}

// Flexible reports whether a message of this definition is flexible at version.
func (s *Struct) Flexible(version int) bool {
	return s.FlexibleAt >= 0 && version >= s.FlexibleAt
}

// Versions returns the versions to exercise: 0..MaxVersion for top level
// definitions; for definitions that carry their own version field the
// highest version mentioned anywhere in them plus one (a "vN+" gate covers
// it); a single pseudo version 0 otherwise.
func (s *Struct) Versions() []int {
	hi := 0
	switch {
	case s.TopLevel:
		hi = s.MaxVersion
	case s.WithVersionField:
		hi = s.maxMentioned() + 1
	}
	out := make([]int, 0, hi+1)
	for v := 0; v <= hi; v++ {
		out = append(out, v)
	}
	return out
}

func (s *Struct) maxMentioned() int {
	m := 0
	if s.FlexibleAt > m {
		m = s.FlexibleAt
	}
	var walkT func(t *Type)
	var walkS func(st *Struct)
	walkT = func(t *Type) {
		if t == nil {
			return
		}
		if t.NullableFrom > m {
			m = t.NullableFrom
		}
		walkT(t.Elem)
		if t.Struct != nil {
			walkS(t.Struct)
		}
	}
	walkS = func(st *Struct) {
		for _, f := range st.Fields {
			if f.MinVer > m {
				m = f.MinVer
			}
			if f.MaxVer > m {
				m = f.MaxVer
			}
			walkT(f.Type)
		}
	}
	walkS(s)
	return m
}

// AnyPresent reports whether at least one field (or, in a flexible version,
// one known tag) is on the wire at version.
func (s *Struct) AnyPresent(version int) bool {
	for _, f := range s.Fields {
		if f.Tag >= 0 {
			if s.Flexible(version) {
				return true
			}
			continue
		}
		if f.Present(version) {
			return true
		}
	}
	return false
}

// KnownTags returns the tagged fields sorted by tag.
func (s *Struct) KnownTags() []*Field {
	var out []*Field
	for _, f := range s.Fields {
		if f.Tag >= 0 {
			out = append(out, f)
		}
	}
	sort.Slice(out, func(i, j int) bool { return out[i].Tag < out[j].Tag })
	return out
}

func (s *Struct) unsupported(format string, a ...any) {
	s.Unsupported = append(s.Unsupported, fmt.Sprintf(format, a...))
}

// Encodable lists the named definitions that are messages of their own
// (everything except "no encoding" helper structs), in file order.
func (sc *Schema) Encodable() []*Struct {
	var out []*Struct
	for _, s := range sc.Order {
		if !s.NoEncoding {
			out = append(out, s)
		}
	}
	return out
}
