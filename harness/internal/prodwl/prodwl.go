// Package prodwl is the seeded, hostile producer workload shared by the
// producer-side property checks (C01, C02, C03, C14, C41). It drives real kgo
// clients against kfake behind faultnet and records, at the client boundary
// and with one logical clock, everything the monitors need: per-record
// produce call/return, promise invocations (count, error, offset), Flush
// call/return, aborts, purges, Close, the hooks, and the final partition logs
// read back independently.
package prodwl

import (
	"context"
	"encoding/binary"
	"errors"
	"fmt"
	"math/rand/v2"
	"sync"
	"sync/atomic"
	"time"

	"github.com/twmb/franz-go/pkg/kerr"
	"github.com/twmb/franz-go/pkg/kfake"
	"github.com/twmb/franz-go/pkg/kgo"
	"github.com/twmb/franz-go/pkg/kmsg"

	"verifharness/internal/e2e"
	"verifharness/internal/faultnet"
)

// Plan is a fully seeded scenario description.
type Plan struct {
	Seed       uint64 `json:"seed"`
	VT         bool   `json:"vt"`
	Brokers    int    `json:"brokers"`
	Partitions int    `json:"partitions"`

	// client options
	LingerMs          int    `json:"linger_ms"`
	MaxBufRecs        int    `json:"max_buffered_records"`
	MaxBufBytes       int    `json:"max_buffered_bytes"`
	ManualFlush       bool   `json:"manual_flushing"`
	Retries           int    `json:"record_retries"` // 0 = default
	DeliveryTimeoutMs int    `json:"record_delivery_timeout_ms"`
	Idempotent        bool   `json:"idempotent"`
	AllowCancel       bool   `json:"allow_idempotent_cancel"`
	Compression       string `json:"compression"`
	BatchMaxBytes     int    `json:"batch_max_bytes"`
	MaxInflight       int    `json:"max_inflight"`

	// workload
	Producers   int     `json:"producers"`
	PerProducer int     `json:"per_producer"`
	ValueMax    int     `json:"value_max"`
	TryP        float64 `json:"try_produce_p"`
	SyncP       float64 `json:"produce_sync_p"`
	CancelP     float64 `json:"record_ctx_cancel_p"`
	UnknownP    float64 `json:"unknown_topic_p"` // produce to a topic that never exists
	LateTopic   bool    `json:"late_topic"`      // a topic created mid-run
	Flushers    int     `json:"flushers"`
	Aborts      int     `json:"aborts"`
	Purges      int     `json:"purges"`
	CloseMid    bool    `json:"close_mid_run"`
	Yield       int     `json:"yield_level"`

	// faults
	KillBeforeP float64 `json:"kill_before_p"`
	KillAfterP  float64 `json:"kill_after_p"`
	RetriableP  float64 `json:"retriable_err_p"`
	FatalP      float64 `json:"fatal_err_p"`
	DelayP      float64 `json:"delay_p"`
	MetaKillP   float64 `json:"metadata_kill_p"`
	LeaderMoves int     `json:"leader_moves"`
	// MetaErr: for a window of the run, Metadata responses report one partition
	// of the purge-target topic with LEADER_NOT_AVAILABLE and produce requests
	// carrying it are answered NOT_LEADER_FOR_PARTITION (nothing appended), so
	// records for it sit buffered on a partition in a load-error state; a purge
	// of the topic is scheduled inside the window.
	MetaErr bool `json:"metadata_partition_error,omitempty"`
	// StartSeq: the client's produce partitions start their sequence numbers here
	// instead of 0 (verif hook), so that a run crosses the 2^31 wrap (C29).
	StartSeq   int32 `json:"start_seq,omitempty"`
	KeepFrames bool  `json:"keep_frames,omitempty"`
}

// Rec is the monitor's cell for one record handed to the client.
type Rec struct {
	ID        string
	R         *kgo.Record
	Producer  int
	Idx       int
	Topic     string
	Partition int32
	API       string // produce / try / sync
	Unknown   bool   // produced to the never-existing topic

	CallClock   int64
	ReturnClock atomic.Int64

	PromiseCount atomic.Int32
	PromiseClock atomic.Int64
	promiseMu    sync.Mutex
	Err          error
	Offset       int64
	WrongRecord  bool // promise invoked with a *Record other than this one

	Buffered   atomic.Int32 // OnProduceRecordBuffered calls
	Unbuffered atomic.Int32 // OnProduceRecordUnbuffered calls
	unbufErr   error
	UnbufClock atomic.Int64
}

func (r *Rec) PromiseErr() error {
	r.promiseMu.Lock()
	defer r.promiseMu.Unlock()
	return r.Err
}
func (r *Rec) UnbufferedErr() error {
	r.promiseMu.Lock()
	defer r.promiseMu.Unlock()
	return r.unbufErr
}

// FlushEv is one Flush call.
type FlushEv struct {
	CallClock, ReturnClock int64
	Err                    error
}

// OpEv is another API call (abort, purge, close, leader move).
type OpEv struct {
	Kind                   string
	CallClock, ReturnClock int64
	Err                    string
}

// Result is everything observed in one scenario.
type Result struct {
	Plan     Plan
	Recs     []*Rec
	Flushes  []FlushEv
	Ops      []OpEv
	Problems []Problem // online monitor findings (double promise, ...)

	Quiesced       bool // every promise ran before the watchdog
	FinalFlushErr  error
	FinalFlushDone bool
	GaugeRecs      int64
	GaugeBytes     int64
	GaugeSampled   bool
	Closed         bool
	CloseReturned  bool

	Logs       map[string]*e2e.PartitionLog // "topic/partition"
	LogErr     error
	Fired      map[string]int64
	Events     []*faultnet.Event
	YieldHits  map[string]int64
	Inconcl    []string
	Stacks     string
	BlockedObs int64 // produce calls observed blocked (did not return promptly)
	MaxBufErrs int64
	Overlap    map[string]bool // API pairs seen overlapping (for C41 evidence)
}

// Problem is an online monitor finding.
type Problem struct {
	Sig    string
	Detail string
}

type hook struct{ w *world }

func (h hook) OnProduceRecordBuffered(r *kgo.Record) {
	if c := h.w.cell(r); c != nil {
		c.Buffered.Add(1)
	} else {
		h.w.problem("hook-buffered-unknown-record", fmt.Sprintf("OnProduceRecordBuffered for a record never submitted: %p", r))
	}
}

func (h hook) OnProduceRecordUnbuffered(r *kgo.Record, err error) {
	c := h.w.cell(r)
	if c == nil {
		h.w.problem("hook-unbuffered-unknown-record", fmt.Sprintf("OnProduceRecordUnbuffered for a record never submitted: %p", r))
		return
	}
	c.promiseMu.Lock()
	c.unbufErr = err
	c.promiseMu.Unlock()
	c.UnbufClock.Store(h.w.tick())
	if n := c.Unbuffered.Add(1); n > 1 {
		h.w.problem("hook-unbuffered-twice", fmt.Sprintf("record %s: OnProduceRecordUnbuffered called %d times", c.ID, n))
	}
}

type world struct {
	plan  Plan
	rng   *rand.Rand
	rngMu sync.Mutex
	clock atomic.Int64
	env   *e2e.Env
	cl    *kgo.Client

	cellsMu sync.Mutex
	cells   map[*kgo.Record]*Rec
	recs    []*Rec

	probMu   sync.Mutex
	problems []Problem

	promised               atomic.Int64
	submitted              atomic.Int64
	blockedObs, maxBufErrs atomic.Int64

	active  sync.Map // api name -> *atomic.Int32
	overMu  sync.Mutex
	overlap map[string]bool

	evMu    sync.Mutex
	flushes []FlushEv
	ops     []OpEv
}

func (w *world) tick() int64 { return w.clock.Add(1) }

func (w *world) cell(r *kgo.Record) *Rec {
	w.cellsMu.Lock()
	defer w.cellsMu.Unlock()
	return w.cells[r]
}

func (w *world) problem(sig, detail string) {
	w.probMu.Lock()
	if len(w.problems) < 50 {
		w.problems = append(w.problems, Problem{sig, detail})
	}
	w.probMu.Unlock()
}

func (w *world) f64() float64 {
	w.rngMu.Lock()
	defer w.rngMu.Unlock()
	return w.rng.Float64()
}

// enter/leave track which API calls overlap in time (evidence for C41).
func (w *world) enter(api string) func() {
	v, _ := w.active.LoadOrStore(api, new(atomic.Int32))
	v.(*atomic.Int32).Add(1)
	w.active.Range(func(k, vv any) bool {
		need := int32(1)
		if k.(string) == api {
			need = 2
		}
		if vv.(*atomic.Int32).Load() >= need {
			a, b := api, k.(string)
			if a > b {
				a, b = b, a
			}
			w.overMu.Lock()
			w.overlap[a+"|"+b] = true
			w.overMu.Unlock()
		}
		return true
	})
	return func() { v.(*atomic.Int32).Add(-1) }
}

const (
	TopicA     = "wl-a"
	TopicB     = "wl-b" // purge target
	TopicLate  = "wl-late"
	TopicNever = "wl-never"
)

var retriable = []int16{kerr.NotLeaderForPartition.Code, kerr.RequestTimedOut.Code, kerr.NotEnoughReplicas.Code, kerr.NotEnoughReplicasAfterAppend.Code, kerr.LeaderNotAvailable.Code}
var fatal = []int16{kerr.MessageTooLarge.Code, kerr.TopicAuthorizationFailed.Code, kerr.InvalidRecord.Code, kerr.RecordListTooLarge.Code}

// batchKeys identifies every idempotent batch of a produce request by
// (topic, partition, producer id, epoch, first sequence).
func batchKeys(req *kmsg.ProduceRequest) (keys []string) {
	for _, t := range req.Topics {
		for _, p := range t.Partitions {
			b := p.Records
			if len(b) < 61 {
				continue
			}
			pid := int64(binary.BigEndian.Uint64(b[43:]))
			if pid < 0 {
				continue
			}
			keys = append(keys, fmt.Sprintf("%s%x/%d/%d/%d/%d", t.Topic, t.TopicID, p.Partition, pid, binary.BigEndian.Uint16(b[51:]), binary.BigEndian.Uint32(b[53:])))
		}
	}
	return keys
}

func produceErrResp(req *kmsg.ProduceRequest, code int16) kmsg.Response {
	resp := req.ResponseKind().(*kmsg.ProduceResponse)
	for _, t := range req.Topics {
		st := kmsg.NewProduceResponseTopic()
		st.Topic = t.Topic
		st.TopicID = t.TopicID
		for _, p := range t.Partitions {
			sp := kmsg.NewProduceResponseTopicPartition()
			sp.Partition = p.Partition
			sp.ErrorCode = code
			sp.BaseOffset = -1
			st.Partitions = append(st.Partitions, sp)
		}
		resp.Topics = append(resp.Topics, st)
	}
	return resp
}

// Run executes one scenario. watchdog bounds every wait (wall clock in RT,
// virtual in VT); when it fires the result is marked not quiesced and the
// caller decides what that means (inconclusive in RT).
func Run(plan Plan, watchdog time.Duration) (res *Result) {
	res = &Result{Plan: plan, Logs: map[string]*e2e.PartitionLog{}}
	w := &world{plan: plan, rng: rand.New(rand.NewPCG(plan.Seed, 0x9e3779b97f4a7c15)), cells: map[*kgo.Record]*Rec{}, overlap: map[string]bool{}}

	frng := rand.New(rand.NewPCG(plan.Seed, 77))
	var fmu sync.Mutex
	var faultsOn atomic.Bool
	faultsOn.Store(true)
	var metaErrOn atomic.Bool
	var topicBID atomic.Value // [16]byte, learnt from metadata responses
	metaErrPart := int32(plan.Seed % uint64(max(plan.Partitions, 1)))
	fnet := &faultnet.Net{KeepFrames: plan.KeepFrames}
	fnet.Decide = func(r *faultnet.Req) faultnet.Action {
		if r.Key == 3 && plan.MetaErr {
			on := metaErrOn.Load() && faultsOn.Load()
			return faultnet.Action{Kind: faultnet.Rewrite, Rewrite: func(frame []byte) []byte {
				return faultnet.RewriteBody(r, frame, func(kresp kmsg.Response) {
					resp, ok := kresp.(*kmsg.MetadataResponse)
					if !ok {
						return
					}
					for i := range resp.Topics {
						t := &resp.Topics[i]
						if t.Topic == nil || *t.Topic != TopicB {
							continue
						}
						topicBID.Store(t.TopicID)
						if !on {
							continue
						}
						for j := range t.Partitions {
							if pt := &t.Partitions[j]; pt.Partition == metaErrPart {
								pt.ErrorCode = kerr.LeaderNotAvailable.Code
								pt.Leader = -1
							}
						}
					}
				})
			}}
		}
		if !faultsOn.Load() {
			return faultnet.Action{}
		}
		fmu.Lock()
		defer fmu.Unlock()
		x := frng.Float64()
		switch r.Key {
		case 0: // produce
			switch {
			case x < plan.KillBeforeP:
				return faultnet.Action{Kind: faultnet.KillBefore}
			case x < plan.KillBeforeP+plan.KillAfterP:
				return faultnet.Action{Kind: faultnet.KillAfter}
			case x < plan.KillBeforeP+plan.KillAfterP+plan.DelayP:
				return faultnet.Action{Kind: faultnet.Delay, D: time.Duration(1+frng.IntN(20)) * time.Millisecond}
			}
		case 3, 22: // metadata, init producer id
			if x < plan.MetaKillP {
				if frng.IntN(2) == 0 {
					return faultnet.Action{Kind: faultnet.KillBefore}
				}
				return faultnet.Action{Kind: faultnet.KillAfter}
			}
		}
		return faultnet.Action{}
	}
	env, err := e2e.NewEnv(plan.VT, plan.Brokers, fnet,
		kfake.SeedTopics(int32(plan.Partitions), TopicA, TopicB),
	)
	if err != nil {
		res.Inconcl = append(res.Inconcl, "kfake start: "+err.Error())
		return res
	}
	defer env.Close()
	w.env = env

	// error-code injection one level up (the broker does NOT append)
	crng := rand.New(rand.NewPCG(plan.Seed, 99))
	seenBatches := map[string]bool{} // only touched from kfake's single control goroutine
	if plan.RetriableP > 0 || plan.FatalP > 0 || plan.MetaErr {
		env.C.ControlKey(0, func(kreq kmsg.Request) (kmsg.Response, error, bool) {
			env.C.KeepControl()
			if !faultsOn.Load() {
				return nil, nil, false
			}
			req := kreq.(*kmsg.ProduceRequest)
			if metaErrOn.Load() {
				bid, _ := topicBID.Load().([16]byte)
				for _, t := range req.Topics {
					if t.Topic != TopicB && (t.TopicID == [16]byte{} || t.TopicID != bid) {
						continue
					}
					for _, pt := range t.Partitions {
						if pt.Partition == metaErrPart {
							return produceErrResp(req, kerr.NotLeaderForPartition.Code), nil, true
						}
					}
				}
			}
			x := crng.Float64()
			// A fatal code is only injected for batches the broker has never been
			// handed before: answering "rejected" for a batch that an earlier
			// attempt already appended is something no broker does.
			fresh := true
			keys := batchKeys(req)
			for _, k := range keys {
				if seenBatches[k] {
					fresh = false
				}
			}
			switch {
			case x < plan.RetriableP:
				return produceErrResp(req, retriable[crng.IntN(len(retriable))]), nil, true
			case x < plan.RetriableP+plan.FatalP && fresh:
				return produceErrResp(req, fatal[crng.IntN(len(fatal))]), nil, true
			}
			for _, k := range keys {
				seenBatches[k] = true
			}
			return nil, nil, false
		})
	}

	y := e2e.NewYield(plan.Seed, plan.Yield, plan.VT)
	if plan.Yield > 0 {
		y.Install()
		defer e2e.Uninstall()
	}

	opts := []kgo.Opt{
		kgo.RecordPartitioner(kgo.ManualPartitioner()),
		kgo.WithHooks(hook{w}),
		kgo.MaxBufferedRecords(plan.MaxBufRecs),
		kgo.ProducerLinger(time.Duration(plan.LingerMs) * time.Millisecond),
		kgo.RetryBackoffFn(func(n int) time.Duration { return time.Duration(1+n) * 2 * time.Millisecond }),
		kgo.MetadataMinAge(10 * time.Millisecond),
		kgo.UnknownTopicRetries(2),
		kgo.RequestTimeoutOverhead(2 * time.Second),
		kgo.ProduceRequestTimeout(2 * time.Second),
	}
	if plan.MaxBufBytes > 0 {
		opts = append(opts, kgo.MaxBufferedBytes(plan.MaxBufBytes))
	}
	if plan.ManualFlush {
		opts = append(opts, kgo.ManualFlushing())
	}
	if plan.Retries > 0 {
		opts = append(opts, kgo.RecordRetries(plan.Retries))
	}
	if plan.DeliveryTimeoutMs > 0 {
		opts = append(opts, kgo.RecordDeliveryTimeout(time.Duration(plan.DeliveryTimeoutMs)*time.Millisecond))
	}
	if !plan.Idempotent {
		opts = append(opts, kgo.DisableIdempotentWrite(), kgo.RequiredAcks(kgo.LeaderAck()))
	}
	if plan.AllowCancel {
		opts = append(opts, kgo.AllowIdempotentProduceCancellation())
	}
	if plan.MaxInflight > 0 && !plan.Idempotent {
		opts = append(opts, kgo.MaxProduceRequestsInflightPerBroker(plan.MaxInflight))
	}
	switch plan.Compression {
	case "gzip":
		opts = append(opts, kgo.ProducerBatchCompression(kgo.GzipCompression()))
	case "snappy":
		opts = append(opts, kgo.ProducerBatchCompression(kgo.SnappyCompression()))
	case "lz4":
		opts = append(opts, kgo.ProducerBatchCompression(kgo.Lz4Compression()))
	case "zstd":
		opts = append(opts, kgo.ProducerBatchCompression(kgo.ZstdCompression()))
	default:
		opts = append(opts, kgo.ProducerBatchCompression(kgo.NoCompression()))
	}
	if plan.BatchMaxBytes > 0 {
		opts = append(opts, kgo.ProducerBatchMaxBytes(int32(plan.BatchMaxBytes)))
	}
	cl, err := env.NewClient(opts...)
	if err != nil {
		res.Inconcl = append(res.Inconcl, "client: "+err.Error())
		return res
	}
	if plan.StartSeq != 0 {
		kgo.VerifSetStartSequence(cl, plan.StartSeq)
		defer kgo.VerifClearStartSequence(cl)
	}
	w.cl = cl
	var closed atomic.Bool
	defer func() {
		if !closed.Load() {
			cl.Close()
		}
	}()

	// pre-create all cells so hooks/promises can always find them
	total := plan.Producers * plan.PerProducer
	w.recs = make([]*Rec, 0, total)
	for p := 0; p < plan.Producers; p++ {
		prng := rand.New(rand.NewPCG(plan.Seed, uint64(1000+p)))
		for i := 0; i < plan.PerProducer; i++ {
			c := &Rec{ID: e2e.RID(p, i), Producer: p, Idx: i, Offset: -2}
			c.Topic = TopicA
			if prng.IntN(4) == 0 {
				c.Topic = TopicB
			}
			if plan.LateTopic && prng.IntN(6) == 0 {
				c.Topic = TopicLate
			}
			if prng.Float64() < plan.UnknownP {
				c.Topic = TopicNever
				c.Unknown = true
			}
			c.Partition = int32(prng.IntN(plan.Partitions))
			if c.Topic == TopicLate {
				c.Partition = int32(prng.IntN(2))
			}
			x := prng.Float64()
			switch {
			case x < plan.TryP:
				c.API = "try"
			case x < plan.TryP+plan.SyncP:
				c.API = "sync"
			default:
				c.API = "produce"
			}
			val := make([]byte, len(c.ID)+1+prng.IntN(plan.ValueMax+1))
			copy(val, c.ID)
			val[len(c.ID)] = '|'
			for k := len(c.ID) + 1; k < len(val); k++ {
				val[k] = byte('a' + k%26)
			}
			c.R = &kgo.Record{Topic: c.Topic, Partition: c.Partition, Value: val}
			w.cells[c.R] = c
			w.recs = append(w.recs, c)
		}
	}
	res.Recs = w.recs

	allPromised := make(chan struct{})
	var allOnce sync.Once
	var stopProducing atomic.Bool

	promiseFor := func(c *Rec) func(*kgo.Record, error) {
		return func(r *kgo.Record, err error) {
			if r != c.R {
				c.WrongRecord = true
				w.problem("promise-wrong-record", fmt.Sprintf("promise of %s invoked with another record %p", c.ID, r))
			}
			n := c.PromiseCount.Add(1)
			if n > 1 {
				w.problem("promise-called-twice", fmt.Sprintf("record %s (api %s topic %s/%d): promise call #%d err=%v (first err=%v)", c.ID, c.API, c.Topic, c.Partition, n, err, c.PromiseErr()))
				return
			}
			c.promiseMu.Lock()
			c.Err = err
			if r != nil {
				c.Offset = r.Offset
			}
			c.promiseMu.Unlock()
			c.PromiseClock.Store(w.tick())
			if errors.Is(err, kgo.ErrMaxBuffered) {
				w.maxBufErrs.Add(1)
			}
			if w.promised.Add(1) == w.submitted.Load() && stopProducing.Load() {
				allOnce.Do(func() { close(allPromised) })
			}
		}
	}

	var closedMid, closeReturned atomic.Bool
	var wg sync.WaitGroup
	ctxAll, cancelAll := context.WithCancel(context.Background())
	defer cancelAll()

	produceOne := func(c *Rec, prng *rand.Rand) {
		ctx := context.Background()
		if prng.Float64() < plan.CancelP {
			var cancel context.CancelFunc
			ctx, cancel = context.WithCancel(ctx)
			time.AfterFunc(time.Duration(prng.IntN(3000))*time.Microsecond, cancel)
		}
		w.submitted.Add(1)
		c.CallClock = w.tick()
		done := w.enter(c.API)
		t0 := time.Now()
		switch c.API {
		case "try":
			cl.TryProduce(ctx, c.R, promiseFor(c))
		case "sync":
			rs := cl.ProduceSync(ctx, c.R)
			if len(rs) != 1 {
				w.problem("producesync-result-count", fmt.Sprintf("ProduceSync of 1 record returned %d results", len(rs)))
				if len(rs) == 0 {
					promiseFor(c)(c.R, errors.New("harness: no ProduceSync result"))
				}
			}
			for _, pr := range rs {
				promiseFor(c)(pr.Record, pr.Err)
			}
		default:
			cl.Produce(ctx, c.R, promiseFor(c))
		}
		if time.Since(t0) > 20*time.Millisecond {
			w.blockedObs.Add(1) // evidence only, never a verdict
		}
		done()
		c.ReturnClock.Store(w.tick())
	}

	for p := 0; p < plan.Producers; p++ {
		wg.Add(1)
		go func(p int) {
			defer wg.Done()
			prng := rand.New(rand.NewPCG(plan.Seed, uint64(5000+p)))
			for i := 0; i < plan.PerProducer; i++ {
				if ctxAll.Err() != nil {
					return
				}
				produceOne(w.recs[p*plan.PerProducer+i], prng)
				if prng.IntN(8) == 0 {
					e2e.Jitter(prng, 300)
				}
			}
		}(p)
	}

	// side actors
	var side sync.WaitGroup
	sideCtx, sideCancel := context.WithCancel(context.Background())
	defer sideCancel()
	adminCl, _ := env.NewClient()
	if adminCl != nil {
		defer adminCl.Close()
	}
	for f := 0; f < plan.Flushers; f++ {
		side.Add(1)
		go func(f int) {
			defer side.Done()
			frng := rand.New(rand.NewPCG(plan.Seed, uint64(9000+f)))
			for sideCtx.Err() == nil {
				time.Sleep(time.Duration(frng.IntN(5000)) * time.Microsecond)
				ctx, cancel := context.WithTimeout(context.Background(), watchdog)
				ev := FlushEv{CallClock: w.tick()}
				done := w.enter("flush")
				ev.Err = cl.Flush(ctx)
				done()
				ev.ReturnClock = w.tick()
				cancel()
				w.evMu.Lock()
				w.flushes = append(w.flushes, ev)
				w.evMu.Unlock()
			}
		}(f)
	}
	op := func(kind string, fn func() error) {
		ev := OpEv{Kind: kind, CallClock: w.tick()}
		done := w.enter(kind)
		if err := fn(); err != nil {
			ev.Err = err.Error()
		}
		done()
		ev.ReturnClock = w.tick()
		w.evMu.Lock()
		w.ops = append(w.ops, ev)
		w.evMu.Unlock()
	}
	side.Add(1)
	go func() {
		defer side.Done()
		srng := rand.New(rand.NewPCG(plan.Seed, 4242))
		type act struct {
			at   int
			kind string
		}
		var acts []act
		for i := 0; i < plan.Aborts; i++ {
			acts = append(acts, act{srng.IntN(100), "abort"})
		}
		for i := 0; i < plan.Purges; i++ {
			acts = append(acts, act{srng.IntN(100), "purge"})
		}
		for i := 0; i < plan.LeaderMoves; i++ {
			acts = append(acts, act{srng.IntN(100), "move"})
		}
		if plan.LateTopic {
			acts = append(acts, act{20 + srng.IntN(40), "create-late"})
		}
		if plan.MetaErr {
			on := 5 + srng.IntN(50)
			acts = append(acts, act{on, "metaerr-on"}, act{on + 8 + srng.IntN(15), "purge-w"}, act{on + 25 + srng.IntN(15), "metaerr-off"})
		}
		if plan.CloseMid {
			acts = append(acts, act{30 + srng.IntN(60), "close"})
		}
		// trigger by progress percentage of submitted records
		doneActs := make([]bool, len(acts))
		// The error window must end even if it stalls the producers (blocked on a
		// full buffer, progress stops): its purge and its end also fire a bounded
		// number of loop turns after it began.
		iter, onIter := 0, -1
		lastPct, lastMove := -1, 0
		for ; sideCtx.Err() == nil; iter++ {
			pct := int(w.submitted.Load() * 100 / int64(total))
			if pct != lastPct {
				lastPct, lastMove = pct, iter
			}
			all := true
			for i, a := range acts {
				if doneActs[i] {
					continue
				}
				all = false
				late := onIter >= 0 && (a.kind == "purge-w" && iter-onIter > 150 || a.kind == "metaerr-off" && iter-onIter > 400)
				if pct < a.at && !late {
					continue
				}
				doneActs[i] = true
				switch a.kind {
				case "abort":
					op("abort", func() error {
						ctx, cancel := context.WithTimeout(context.Background(), watchdog)
						defer cancel()
						return cl.AbortBufferedRecords(ctx)
					})
				case "purge", "purge-w":
					op("purge", func() error { cl.PurgeTopicsFromClient(TopicB); return nil })
				case "metaerr-on":
					onIter = iter
					op("metaerr-on", func() error { metaErrOn.Store(true); return nil })
				case "metaerr-off":
					op("metaerr-off", func() error { metaErrOn.Store(false); return nil })
				case "move":
					op("move", func() error {
						t := TopicA
						if srng.IntN(3) == 0 {
							t = TopicB
						}
						return env.C.MoveTopicPartition(t, int32(srng.IntN(plan.Partitions)), int32(srng.IntN(plan.Brokers)))
					})
				case "create-late":
					op("create-late", func() error {
						if adminCl == nil {
							return nil
						}
						req := kmsg.NewPtrCreateTopicsRequest()
						rt := kmsg.NewCreateTopicsRequestTopic()
						rt.Topic = TopicLate
						rt.NumPartitions = 2
						rt.ReplicationFactor = 1
						req.Topics = append(req.Topics, rt)
						ctx, cancel := context.WithTimeout(context.Background(), watchdog)
						defer cancel()
						_, err := req.RequestWith(ctx, adminCl)
						return err
					})
				case "close":
					op("close", func() error {
						closedMid.Store(true)
						cl.Close()
						closed.Store(true)
						closeReturned.Store(true)
						return nil
					})
				}
			}
			if all {
				return
			}
			// poll quickly while the producers make progress; when they are stuck (e.g. blocked on
			// a full buffer) back off, or 30 virtual minutes of 200us timers cost minutes of real time
			switch idle := iter - lastMove; {
			case idle > 3000:
				time.Sleep(time.Second)
			case idle > 1500:
				time.Sleep(20 * time.Millisecond)
			default:
				time.Sleep(200 * time.Microsecond)
			}
		}
	}()

	// wait for producers (they may block on a full buffer: bounded by the watchdog)
	prodDone := make(chan struct{})
	go func() { wg.Wait(); close(prodDone) }()
	if !e2e.WaitOrTimeout(prodDone, watchdog) {
		res.Inconcl = append(res.Inconcl, "producers did not finish within the watchdog")
		res.Stacks = e2e.Stacks()
		cancelAll()
		// unblock: closing the client fails everything
		cl.Close()
		closed.Store(true)
		<-prodDone
		sideCancel()
		side.Wait()
		w.finish(res, fnet, y)
		return res
	}
	stopProducing.Store(true)
	sideCancel()
	side.Wait()
	res.Closed = closedMid.Load()
	res.CloseReturned = closeReturned.Load()
	faultsOn.Store(false)
	if w.promised.Load() == w.submitted.Load() {
		allOnce.Do(func() { close(allPromised) })
	}

	// quiesce
	if !res.Closed {
		ctx, cancel := context.WithTimeout(context.Background(), watchdog)
		ev := FlushEv{CallClock: w.tick()}
		ev.Err = cl.Flush(ctx)
		ev.ReturnClock = w.tick()
		cancel()
		res.FinalFlushErr = ev.Err
		res.FinalFlushDone = ev.Err == nil
		w.evMu.Lock()
		w.flushes = append(w.flushes, ev)
		w.evMu.Unlock()
	}
	res.Quiesced = e2e.WaitOrTimeout(allPromised, watchdog)
	if !res.Quiesced {
		res.Stacks = e2e.Stacks()
	}
	if res.Quiesced && !res.Closed {
		// the code decrements its gauges just after calling the promise, so
		// sample only after another Flush (which waits for the gauge) returned
		ctx, cancel := context.WithTimeout(context.Background(), watchdog)
		if err := cl.Flush(ctx); err == nil {
			res.GaugeRecs = cl.BufferedProduceRecords()
			res.GaugeBytes = cl.BufferedProduceBytes()
			res.GaugeSampled = true
		} else {
			res.Inconcl = append(res.Inconcl, "second flush: "+err.Error())
		}
		cancel()
	}

	// ground truth
	if adminCl != nil {
		ctx, cancel := context.WithTimeout(context.Background(), watchdog)
		topics := map[string]int{TopicA: plan.Partitions, TopicB: plan.Partitions}
		if plan.LateTopic {
			topics[TopicLate] = 2
		}
		for t, n := range topics {
			for p := 0; p < n; p++ {
				l, err := e2e.ReadLog(ctx, adminCl, t, int32(p))
				if err != nil {
					if t == TopicLate {
						continue
					}
					res.LogErr = fmt.Errorf("read %s/%d: %w", t, p, err)
					continue
				}
				res.Logs[fmt.Sprintf("%s/%d", t, p)] = l
			}
		}
		cancel()
	}
	w.finish(res, fnet, y)
	return res
}

func (w *world) finish(res *Result, fnet *faultnet.Net, y *e2e.Yield) {
	w.evMu.Lock()
	res.Flushes = w.flushes
	res.Ops = w.ops
	w.evMu.Unlock()
	w.probMu.Lock()
	res.Problems = w.problems
	w.probMu.Unlock()
	res.Fired = fnet.Fired()
	res.Events = fnet.Events()
	res.YieldHits = y.Hits()
	res.BlockedObs = w.blockedObs.Load()
	res.MaxBufErrs = w.maxBufErrs.Load()
	w.overMu.Lock()
	res.Overlap = w.overlap
	w.overMu.Unlock()
}
