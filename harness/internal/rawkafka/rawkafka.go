// Package rawkafka is a small SCRIPTED BROKER: a listener that speaks the
// Kafka framing (int32 size, request header v1/v2) and answers according to a
// script instead of implementing broker semantics. It is used where kfake
// cannot be (produce v0-v2, arbitrary advertised version ranges, hostile
// response streams).
//
// Per connection one goroutine reads request frames (and records every header
// it saw, in arrival order), a second executes the reply of each request in
// arrival order. A reply is a list of Ops (write bytes, write dribbled, sleep,
// close, reset, defer-until-after-the-next-reply), so every hostile behaviour
// is a composition of a few primitives; helpers build the usual ones:
//
//	Respond(h, resp)         a conforming response frame for h
//	FrameBody(corr, flex, b) a frame from raw body bytes
//	Reply{}.Write / .Dribble / .Sleep / .Close / .Reset / .Defer
//
// Built-in handlers answer ApiVersions (advertised [min,max] per key, missing
// keys, KIP-511 / pre-2.4 / all-keys replies to an unsupported ApiVersions
// version, or a TCP reset), Metadata (one broker = itself, configured topics,
// leader = itself) and everything else with the zero-valued response of the
// request's ResponseKind. Config.Handlers overrides any key.
//
// The listener is loopback TCP by default; pass Config.Listener (for example
// from kfake.VirtualNetwork.Listen, whose connections are net.Pipe ends) to
// run inside a testing/synctest bubble. Sleeps use time.Sleep semantics (they
// are virtual in a bubble) and are interrupted by Close.
package rawkafka

import (
	"encoding/binary"
	"errors"
	"io"
	"net"
	"sort"
	"strconv"
	"sync"
	"sync/atomic"
	"time"

	"github.com/twmb/franz-go/pkg/kmsg"
)

// Header is one request header as seen on the wire.
type Header struct {
	Seq      int64 // global arrival order across all connections (1-based)
	Conn     int64 // connection number (1-based, in accept order)
	Nth      int   // nth request of this key seen by the broker (0-based)
	Key      int16
	Version  int16
	Corr     int32
	ClientID *string
	Flexible bool // request header v2 (tagged fields follow the client id)
	FrameLen int  // 4 + size
	// Frame is the complete frame (with KeepFrames); Body the bytes after the
	// request header (always kept).
	Frame []byte
	Body  []byte
	// Known is false when kmsg has no request for Key.
	Known bool
}

// Request is a header plus the decoded body.
type Request struct {
	Header
	// Req is the decoded request (nil when the key is unknown or the body
	// does not decode; DecodeErr says why).
	Req       kmsg.Request
	DecodeErr error
}

// OpKind is one primitive of a reply.
type OpKind int

const (
	OpWrite OpKind = iota // write Bytes (in Chunk-byte pieces D apart when Chunk > 0)
	OpSleep               // sleep D
	OpClose               // close the connection (FIN)
	OpReset               // close with SO_LINGER 0 (RST) on TCP; plain close elsewhere
	OpDefer               // hold Bytes back and write them right after the NEXT request's reply on this connection
)

// Op is one step of a reply.
type Op struct {
	Kind  OpKind
	Bytes []byte
	D     time.Duration
	Chunk int
}

// Reply is what a handler returns: steps executed in order. The zero Reply
// answers nothing (the request stays unanswered, the connection open).
type Reply struct{ Ops []Op }

func (r Reply) Write(b []byte) Reply { r.Ops = append(r.Ops, Op{Kind: OpWrite, Bytes: b}); return r }
func (r Reply) Dribble(b []byte, chunk int, gap time.Duration) Reply {
	r.Ops = append(r.Ops, Op{Kind: OpWrite, Bytes: b, Chunk: chunk, D: gap})
	return r
}
func (r Reply) Sleep(d time.Duration) Reply { r.Ops = append(r.Ops, Op{Kind: OpSleep, D: d}); return r }
func (r Reply) Close() Reply                { r.Ops = append(r.Ops, Op{Kind: OpClose}); return r }
func (r Reply) Reset() Reply                { r.Ops = append(r.Ops, Op{Kind: OpReset}); return r }
func (r Reply) Defer(b []byte) Reply        { r.Ops = append(r.Ops, Op{Kind: OpDefer, Bytes: b}); return r }

// Handler decides the reply to one request. It runs on the connection's
// reader goroutine, in arrival order; it must not block.
type Handler func(b *Broker, req *Request) Reply

// UnsupportedMode is how the broker answers an ApiVersions request whose
// version exceeds Versions.ApiVersionsMax.
type UnsupportedMode int

const (
	// KIP511: error 35 and a v0-shaped body listing only ApiVersions' own range (Kafka >= 2.4).
	KIP511 UnsupportedMode = iota
	// Pre24: error 35 and a v0-shaped body with no keys (Kafka < 2.4).
	Pre24
	// AllKeys: error 35 and a v0-shaped body listing every advertised key.
	AllKeys
	// ResetConn: the connection is reset (EventHubs-like).
	ResetConn
)

// Range is an advertised [Min,Max].
type Range struct{ Min, Max int16 }

// Versions configures the ApiVersions handler.
type Versions struct {
	// Ranges are the advertised keys. Nil advertises every kmsg key with
	// [0, kmsg max]. A key absent from a non-nil map is not advertised.
	Ranges map[int16]Range
	// ApiVersionsMax is the highest ApiVersions request version the broker
	// understands (default: Ranges[18].Max, or kmsg's max when unset).
	ApiVersionsMax *int16
	// OnUnsupported selects the reply to a higher ApiVersions version.
	OnUnsupported UnsupportedMode
}

// Config configures a Broker.
type Config struct {
	// Listener to accept on; nil listens on 127.0.0.1:0.
	Listener net.Listener
	NodeID   int32
	Versions Versions
	// Topics maps topic name to partition count for the Metadata handler.
	Topics map[string]int32
	// AutoTopicPartitions > 0 makes Metadata invent unknown requested topics
	// with that many partitions.
	AutoTopicPartitions int32
	// Handlers override the built-in reply per key.
	Handlers map[int16]Handler
	// Default replaces the zero-valued-response fallback.
	Default Handler
	// KeepFrames keeps every complete request frame in Header.Frame.
	KeepFrames bool
	// Tap observes every request (after it was recorded).
	Tap func(*Request)
	// MaxFrame bounds accepted request sizes (default 256 MiB).
	MaxFrame int
}

// Broker is a running scripted broker.
type Broker struct {
	cfg  Config
	vmu  sync.RWMutex // guards cfg.Versions
	ln   net.Listener
	host string
	port int32

	mu      sync.Mutex
	hdrs    []Header
	perKey  map[int16]int
	conns   map[*conn]struct{}
	seq     atomic.Int64
	connSeq atomic.Int64
	done    chan struct{}
	once    sync.Once
	wg      sync.WaitGroup
}

// New starts a broker.
func New(cfg Config) (*Broker, error) {
	b := &Broker{cfg: cfg, perKey: map[int16]int{}, conns: map[*conn]struct{}{}, done: make(chan struct{})}
	if b.cfg.MaxFrame <= 0 {
		b.cfg.MaxFrame = 256 << 20
	}
	b.ln = cfg.Listener
	if b.ln == nil {
		l, err := net.Listen("tcp", "127.0.0.1:0")
		if err != nil {
			return nil, err
		}
		b.ln = l
	}
	host, portS, err := net.SplitHostPort(b.ln.Addr().String())
	if err != nil {
		return nil, err
	}
	p, _ := strconv.Atoi(portS)
	b.host, b.port = host, int32(p)
	b.wg.Add(1)
	go b.accept()
	return b, nil
}

// Addr is the host:port to give to kgo.SeedBrokers.
func (b *Broker) Addr() string { return net.JoinHostPort(b.host, strconv.Itoa(int(b.port))) }
func (b *Broker) Host() string { return b.host }
func (b *Broker) Port() int32  { return b.port }
func (b *Broker) NodeID() int32 {
	return b.cfg.NodeID
}

// Close stops accepting, closes every connection and waits for all goroutines.
func (b *Broker) Close() {
	b.once.Do(func() {
		close(b.done)
		b.ln.Close()
		b.mu.Lock()
		cs := make([]*conn, 0, len(b.conns))
		for c := range b.conns {
			cs = append(cs, c)
		}
		b.mu.Unlock()
		for _, c := range cs {
			c.c.Close()
		}
	})
	b.wg.Wait()
}

// KillConns closes every live connection (the broker keeps accepting).
func (b *Broker) KillConns() {
	b.mu.Lock()
	cs := make([]*conn, 0, len(b.conns))
	for c := range b.conns {
		cs = append(cs, c)
	}
	b.mu.Unlock()
	for _, c := range cs {
		c.c.Close()
	}
}

// WaitConnsClosed waits (real time, polling) until every accepted connection
// has been closed by the peer and fully read, or d elapsed. Use it after
// closing the client when requests without responses (acks=0) may still be in
// flight towards the broker.
func (b *Broker) WaitConnsClosed(d time.Duration) bool {
	deadline := time.Now().Add(d)
	for {
		b.mu.Lock()
		n := len(b.conns)
		b.mu.Unlock()
		if n == 0 {
			return true
		}
		if time.Now().After(deadline) {
			return false
		}
		time.Sleep(200 * time.Microsecond)
	}
}

// Requests returns a snapshot of every request header seen so far, in arrival order.
func (b *Broker) Requests() []Header {
	b.mu.Lock()
	defer b.mu.Unlock()
	return append([]Header(nil), b.hdrs...)
}

// NumRequests returns how many requests were seen.
func (b *Broker) NumRequests() int {
	b.mu.Lock()
	defer b.mu.Unlock()
	return len(b.hdrs)
}

// Conns returns how many connections were accepted.
func (b *Broker) Conns() int64 { return b.connSeq.Load() }

func (b *Broker) accept() {
	defer b.wg.Done()
	for {
		c, err := b.ln.Accept()
		if err != nil {
			return
		}
		cn := &conn{b: b, c: c, id: b.connSeq.Add(1), wake: make(chan struct{}, 1)}
		b.mu.Lock()
		select {
		case <-b.done:
			b.mu.Unlock()
			c.Close()
			return
		default:
		}
		b.conns[cn] = struct{}{}
		b.mu.Unlock()
		b.wg.Add(2)
		go cn.read()
		go cn.write()
	}
}

type conn struct {
	b  *Broker
	c  net.Conn
	id int64

	qmu      sync.Mutex
	q        []Reply
	eof      bool
	wake     chan struct{}
	deferred [][]byte
}

func (c *conn) push(r Reply, eof bool) {
	c.qmu.Lock()
	if eof {
		c.eof = true
	} else {
		c.q = append(c.q, r)
	}
	c.qmu.Unlock()
	select {
	case c.wake <- struct{}{}:
	default:
	}
}

func (c *conn) read() {
	defer c.b.wg.Done()
	defer c.push(Reply{}, true)
	var szb [4]byte
	for {
		if _, err := io.ReadFull(c.c, szb[:]); err != nil {
			return
		}
		sz := int(int32(binary.BigEndian.Uint32(szb[:])))
		if sz < 8 || sz > c.b.cfg.MaxFrame {
			return
		}
		frame := make([]byte, 4+sz)
		copy(frame, szb[:])
		if _, err := io.ReadFull(c.c, frame[4:]); err != nil {
			return
		}
		req := c.b.parse(c.id, frame)
		if c.b.cfg.Tap != nil {
			c.b.cfg.Tap(req)
		}
		c.push(c.b.handle(req), false)
	}
}

func (c *conn) write() {
	defer c.b.wg.Done()
	defer func() {
		c.c.Close()
		c.b.mu.Lock()
		delete(c.b.conns, c)
		c.b.mu.Unlock()
	}()
	for {
		c.qmu.Lock()
		var r Reply
		have := len(c.q) > 0
		if have {
			r = c.q[0]
			c.q = c.q[1:]
		}
		eof := c.eof
		c.qmu.Unlock()
		if !have {
			if eof {
				return
			}
			select {
			case <-c.wake:
			case <-c.b.done:
				return
			}
			continue
		}
		if !c.exec(r) {
			return
		}
	}
}

func (c *conn) sleep(d time.Duration) bool {
	if d <= 0 {
		return true
	}
	t := time.NewTimer(d)
	defer t.Stop()
	select {
	case <-t.C:
		return true
	case <-c.b.done:
		return false
	}
}

// exec runs one reply; false means the connection is finished.
func (c *conn) exec(r Reply) bool {
	wrote := false
	var newDeferred [][]byte
	for _, op := range r.Ops {
		switch op.Kind {
		case OpWrite:
			wrote = true
			if op.Chunk <= 0 {
				if _, err := c.c.Write(op.Bytes); err != nil {
					return false
				}
				continue
			}
			for p := op.Bytes; len(p) > 0; {
				n := op.Chunk
				if n > len(p) {
					n = len(p)
				}
				if _, err := c.c.Write(p[:n]); err != nil {
					return false
				}
				p = p[n:]
				if len(p) > 0 && !c.sleep(op.D) {
					return false
				}
			}
		case OpSleep:
			if !c.sleep(op.D) {
				return false
			}
		case OpClose:
			return false
		case OpReset:
			if tc, ok := c.c.(*net.TCPConn); ok {
				tc.SetLinger(0)
			}
			return false
		case OpDefer:
			newDeferred = append(newDeferred, op.Bytes)
		}
	}
	if wrote && len(c.deferred) > 0 {
		for _, d := range c.deferred {
			if _, err := c.c.Write(d); err != nil {
				return false
			}
		}
		c.deferred = nil
	}
	c.deferred = append(c.deferred, newDeferred...)
	return true
}

func (b *Broker) parse(connID int64, frame []byte) *Request {
	h := Header{
		Seq: b.seq.Add(1), Conn: connID, FrameLen: len(frame),
		Key:     int16(binary.BigEndian.Uint16(frame[4:])),
		Version: int16(binary.BigEndian.Uint16(frame[6:])),
		Corr:    int32(binary.BigEndian.Uint32(frame[8:])),
	}
	body := frame[12:]
	var perr error
	if len(body) >= 2 {
		l := int(int16(binary.BigEndian.Uint16(body)))
		body = body[2:]
		if l >= 0 {
			if l > len(body) {
				perr = errors.New("client id runs past the frame")
				l = len(body)
			}
			s := string(body[:l])
			h.ClientID = &s
			body = body[l:]
		}
	} else {
		perr = errors.New("frame too short for a client id")
	}
	kreq := kmsg.RequestForKey(h.Key)
	if kreq != nil {
		h.Known = true
		kreq.SetVersion(h.Version)
		if kreq.IsFlexible() {
			h.Flexible = true
			// header tagged fields: uvarint count, then (tag, size, bytes)*
			n, used := uvarint(body)
			if used <= 0 {
				perr = errors.New("bad header tag count")
			} else {
				body = body[used:]
				for i := uint64(0); i < n && perr == nil; i++ {
					_, u1 := uvarint(body)
					if u1 <= 0 {
						perr = errors.New("bad header tag")
						break
					}
					body = body[u1:]
					sz, u2 := uvarint(body)
					if u2 <= 0 || int(sz) > len(body)-u2 {
						perr = errors.New("bad header tag size")
						break
					}
					body = body[u2+int(sz):]
				}
			}
		}
	}
	h.Body = append([]byte(nil), body...)
	if b.cfg.KeepFrames {
		h.Frame = frame
	}
	b.mu.Lock()
	h.Nth = b.perKey[h.Key]
	b.perKey[h.Key]++
	b.hdrs = append(b.hdrs, h)
	b.mu.Unlock()
	req := &Request{Header: h, DecodeErr: perr}
	if kreq == nil {
		if perr == nil {
			req.DecodeErr = errors.New("unknown request key")
		}
		return req
	}
	if perr == nil {
		if err := kreq.ReadFrom(h.Body); err != nil {
			req.DecodeErr = err
		} else {
			req.Req = kreq
		}
	}
	return req
}

func uvarint(b []byte) (uint64, int) {
	var x uint64
	for i := 0; i < len(b) && i < 5; i++ {
		x |= uint64(b[i]&0x7f) << (7 * uint(i))
		if b[i]&0x80 == 0 {
			return x, i + 1
		}
	}
	return 0, 0
}

func (b *Broker) handle(req *Request) Reply {
	if h := b.cfg.Handlers[req.Key]; h != nil {
		return h(b, req)
	}
	switch {
	case req.Key == 18:
		return b.ApiVersions(req)
	case req.Key == 3 && req.Req != nil:
		return Reply{}.Write(Respond(&req.Header, b.MetadataResponse(req)))
	}
	if b.cfg.Default != nil {
		return b.cfg.Default(b, req)
	}
	return b.ZeroReply(req)
}

// ZeroReply answers with the zero-valued response of the request's kind; a
// request of an unknown key closes the connection.
func (b *Broker) ZeroReply(req *Request) Reply {
	if req.Req == nil {
		// undecodable body: still answer (zero response of the key at the
		// header version) so that one odd request does not take the
		// connection down; unknown keys close.
		resp := kmsg.ResponseForKey(req.Key)
		if resp == nil {
			return Reply{}.Close()
		}
		return Reply{}.Write(Respond(&req.Header, resp))
	}
	if pr, ok := req.Req.(*kmsg.ProduceRequest); ok && pr.Acks == 0 {
		return Reply{}
	}
	return Reply{}.Write(Respond(&req.Header, req.Req.ResponseKind()))
}

// FrameBody builds a response frame: size, correlation id, the response
// header's empty tagged-field section when flexHeader, then body.
func FrameBody(corr int32, flexHeader bool, body []byte) []byte {
	n := 4 + len(body)
	if flexHeader {
		n++
	}
	out := make([]byte, 0, 4+n)
	out = binary.BigEndian.AppendUint32(out, uint32(n))
	out = binary.BigEndian.AppendUint32(out, uint32(corr))
	if flexHeader {
		out = append(out, 0)
	}
	return append(out, body...)
}

// FlexHeader reports whether the response to (key, version) carries the
// flexible response header (every flexible request except ApiVersions).
func FlexHeader(key, version int16) bool {
	if key == 18 {
		return false
	}
	k := kmsg.RequestForKey(key)
	if k == nil {
		return false
	}
	k.SetVersion(version)
	return k.IsFlexible()
}

// Respond encodes resp at the request's version as a conforming frame for h.
func Respond(h *Header, resp kmsg.Response) []byte {
	resp.SetVersion(h.Version)
	return FrameBody(h.Corr, FlexHeader(h.Key, h.Version), resp.AppendTo(nil))
}

// RespondAt encodes resp at the given version (for replies whose body shape
// differs from the request version, e.g. ApiVersions downgrade replies).
func RespondAt(h *Header, resp kmsg.Response, version int16) []byte {
	resp.SetVersion(version)
	return FrameBody(h.Corr, FlexHeader(h.Key, h.Version), resp.AppendTo(nil))
}

// versions returns the current advertisement (SetVersions may replace it).
func (b *Broker) versions() Versions {
	b.vmu.RLock()
	defer b.vmu.RUnlock()
	return b.cfg.Versions
}

// SetVersions replaces what the broker advertises from now on (a broker that
// was restarted with another version). Existing connections are not touched;
// call KillConns to make clients reconnect and ask again.
func (b *Broker) SetVersions(v Versions) {
	b.vmu.Lock()
	b.cfg.Versions = v
	b.vmu.Unlock()
}

// Advertised returns the ranges the broker advertises.
func (b *Broker) Advertised() map[int16]Range {
	if b.versions().Ranges != nil {
		return b.versions().Ranges
	}
	m := map[int16]Range{}
	for k := int16(0); k <= kmsg.MaxKey; k++ {
		if r := kmsg.RequestForKey(k); r != nil {
			m[k] = Range{0, r.MaxVersion()}
		}
	}
	return m
}

func (b *Broker) apiVersionsMax() int16 {
	if b.versions().ApiVersionsMax != nil {
		return *b.versions().ApiVersionsMax
	}
	if r, ok := b.Advertised()[18]; ok {
		return r.Max
	}
	return kmsg.NewPtrApiVersionsRequest().MaxVersion()
}

func (b *Broker) apiKeys(only18 bool) []kmsg.ApiVersionsResponseApiKey {
	adv := b.Advertised()
	keys := make([]int, 0, len(adv))
	for k := range adv {
		keys = append(keys, int(k))
	}
	sort.Ints(keys)
	var out []kmsg.ApiVersionsResponseApiKey
	for _, k := range keys {
		if only18 && k != 18 {
			continue
		}
		e := kmsg.NewApiVersionsResponseApiKey()
		e.ApiKey, e.MinVersion, e.MaxVersion = int16(k), adv[int16(k)].Min, adv[int16(k)].Max
		out = append(out, e)
	}
	if only18 && len(out) == 0 {
		e := kmsg.NewApiVersionsResponseApiKey()
		e.ApiKey, e.MinVersion, e.MaxVersion = 18, 0, b.apiVersionsMax()
		out = append(out, e)
	}
	return out
}

// ApiVersions is the built-in ApiVersions handler.
func (b *Broker) ApiVersions(req *Request) Reply {
	resp := kmsg.NewPtrApiVersionsResponse()
	if req.Version > b.apiVersionsMax() {
		switch b.versions().OnUnsupported {
		case ResetConn:
			return Reply{}.Reset()
		case KIP511:
			resp.ApiKeys = b.apiKeys(true)
		case Pre24:
		case AllKeys:
			resp.ApiKeys = b.apiKeys(false)
		}
		resp.ErrorCode = 35
		return Reply{}.Write(RespondAt(&req.Header, resp, 0))
	}
	resp.ApiKeys = b.apiKeys(false)
	return Reply{}.Write(Respond(&req.Header, resp))
}

// TopicID derives a stable non-zero topic id from the name.
func TopicID(topic string) [16]byte {
	var id [16]byte
	h := uint64(14695981039346656037)
	for i := 0; i < 16; i++ {
		for j := 0; j < len(topic); j++ {
			h = (h ^ uint64(topic[j])) * 1099511628211
		}
		h = (h ^ uint64(i+1)) * 1099511628211
		id[i] = byte(h >> 24)
	}
	id[0] |= 1
	return id
}

// MetadataResponse builds the built-in Metadata reply: one broker (this one),
// controller = itself, the requested (or all configured) topics led by itself.
func (b *Broker) MetadataResponse(req *Request) *kmsg.MetadataResponse {
	mreq := req.Req.(*kmsg.MetadataRequest)
	resp := kmsg.NewPtrMetadataResponse()
	br := kmsg.NewMetadataResponseBroker()
	br.NodeID, br.Host, br.Port = b.cfg.NodeID, b.host, b.port
	resp.Brokers = append(resp.Brokers, br)
	resp.ControllerID = b.cfg.NodeID
	cid := "rawkafka"
	resp.ClusterID = &cid
	add := func(name string, nparts int32, code int16) {
		t := kmsg.NewMetadataResponseTopic()
		n := name
		t.Topic = &n
		t.ErrorCode = code
		if code == 0 {
			t.TopicID = TopicID(name)
		}
		for p := int32(0); p < nparts; p++ {
			pp := kmsg.NewMetadataResponseTopicPartition()
			pp.Partition, pp.Leader, pp.LeaderEpoch = p, b.cfg.NodeID, 0
			pp.Replicas, pp.ISR = []int32{b.cfg.NodeID}, []int32{b.cfg.NodeID}
			t.Partitions = append(t.Partitions, pp)
		}
		resp.Topics = append(resp.Topics, t)
	}
	all := mreq.Topics == nil || (mreq.Version == 0 && len(mreq.Topics) == 0)
	if all {
		names := make([]string, 0, len(b.cfg.Topics))
		for n := range b.cfg.Topics {
			names = append(names, n)
		}
		sort.Strings(names)
		for _, n := range names {
			add(n, b.cfg.Topics[n], 0)
		}
		return resp
	}
	byID := map[[16]byte]string{}
	for n := range b.cfg.Topics {
		byID[TopicID(n)] = n
	}
	for _, rt := range mreq.Topics {
		name := ""
		if rt.Topic != nil {
			name = *rt.Topic
		} else if n, ok := byID[rt.TopicID]; ok {
			name = n
		}
		if np, ok := b.cfg.Topics[name]; ok {
			add(name, np, 0)
		} else if b.cfg.AutoTopicPartitions > 0 && name != "" {
			add(name, b.cfg.AutoTopicPartitions, 0)
		} else {
			add(name, 0, 3) // UNKNOWN_TOPIC_OR_PARTITION
		}
	}
	return resp
}
