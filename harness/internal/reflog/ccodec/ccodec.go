// Package ccodec is the reference side's compression layer: thin cgo bindings
// to the system C libraries (zlib, liblz4 frame API, libsnappy, libzstd). It
// shares no code with the Go codec libraries franz-go links (compress/gzip,
// klauspost/compress, pierrec/lz4), so agreement between the two sides is
// agreement between independent implementations.
//
// Codec numbers are Kafka's: 0 none, 1 gzip, 2 snappy, 3 lz4, 4 zstd.
//
// Snappy: Kafka's Java clients wrap snappy in the xerial "snappy-java" stream
// framing; Compress(Snappy, ..) produces that framing, Decompress accepts both
// the framing and a bare raw snappy block. The framing itself is written here
// in Go from its specification; only the block codec is libsnappy.
package ccodec

/*
#cgo LDFLAGS: -lz -llz4 -lsnappy -lzstd
#include <stdlib.h>
#include <string.h>
#include <zlib.h>
#include <lz4frame.h>
#include <snappy-c.h>
#include <zstd.h>

// Every function returns >=0 (bytes produced) or a negative code:
//  -1 generic/corrupt input, -2 output would exceed cap, -3 truncated input.

static long vh_gzip_compress(const unsigned char* src, size_t n, unsigned char* dst, size_t cap, int level) {
	z_stream s;
	memset(&s, 0, sizeof(s));
	if (deflateInit2(&s, level, Z_DEFLATED, 15 + 16, 8, Z_DEFAULT_STRATEGY) != Z_OK) return -1;
	s.next_in = (unsigned char*)src; s.avail_in = (uInt)n;
	s.next_out = dst; s.avail_out = (uInt)cap;
	int rc = deflate(&s, Z_FINISH);
	long out = (long)s.total_out;
	deflateEnd(&s);
	if (rc != Z_STREAM_END) return -2;
	return out;
}

static size_t vh_gzip_bound(size_t n) {
	return compressBound(n) + 64;
}

// Inflates one or more concatenated gzip members into dst (cap bytes).
static long vh_gzip_decompress(const unsigned char* src, size_t n, unsigned char* dst, size_t cap) {
	z_stream s;
	memset(&s, 0, sizeof(s));
	if (inflateInit2(&s, 15 + 16) != Z_OK) return -1;
	s.next_in = (unsigned char*)src; s.avail_in = (uInt)n;
	size_t produced = 0;
	unsigned char scratch[1];
	for (;;) {
		if (produced < cap) {
			s.next_out = dst + produced;
			size_t room = cap - produced;
			if (room > 0x40000000) room = 0x40000000;
			s.avail_out = (uInt)room;
		} else {
			s.next_out = scratch; s.avail_out = 1;
		}
		uInt before = s.avail_out;
		int rc = inflate(&s, Z_NO_FLUSH);
		size_t got = before - s.avail_out;
		if (produced >= cap && got > 0) { inflateEnd(&s); return -2; }
		produced += got;
		if (rc == Z_STREAM_END) {
			if (s.avail_in == 0) break;
			if (inflateReset(&s) != Z_OK) { inflateEnd(&s); return -1; }
			continue;
		}
		if (rc == Z_OK) {
			if (s.avail_in == 0 && s.avail_out != 0) { inflateEnd(&s); return -3; }
			continue;
		}
		if (rc == Z_BUF_ERROR) {
			if (s.avail_in == 0) { inflateEnd(&s); return -3; }
			continue; // out of room: loop switches to the scratch byte
		}
		inflateEnd(&s);
		return -1;
	}
	inflateEnd(&s);
	return (long)produced;
}

static size_t vh_lz4_bound(size_t n) {
	LZ4F_preferences_t p;
	memset(&p, 0, sizeof(p));
	return LZ4F_compressFrameBound(n, &p) + 64;
}

static long vh_lz4_compress(const unsigned char* src, size_t n, unsigned char* dst, size_t cap, int level, int blockIndep, int contentChecksum) {
	LZ4F_preferences_t p;
	memset(&p, 0, sizeof(p));
	p.compressionLevel = level;
	p.frameInfo.blockMode = blockIndep ? LZ4F_blockIndependent : LZ4F_blockLinked;
	p.frameInfo.contentChecksumFlag = contentChecksum ? LZ4F_contentChecksumEnabled : LZ4F_noContentChecksum;
	p.frameInfo.blockSizeID = LZ4F_max64KB;
	size_t r = LZ4F_compressFrame(dst, cap, src, n, &p);
	if (LZ4F_isError(r)) return -1;
	return (long)r;
}

// Decodes one or more concatenated lz4 frames.
static long vh_lz4_decompress(const unsigned char* src, size_t n, unsigned char* dst, size_t cap) {
	LZ4F_dctx* ctx = NULL;
	if (LZ4F_isError(LZ4F_createDecompressionContext(&ctx, LZ4F_VERSION))) return -1;
	size_t in = 0, out = 0;
	size_t hint = 1;
	unsigned char scratch[64];
	for (;;) {
		if (in >= n && hint == 0) break;
		size_t srcSize = n - in;
		size_t dstSize;
		unsigned char* d;
		if (out < cap) { d = dst + out; dstSize = cap - out; } else { d = scratch; dstSize = sizeof(scratch); }
		hint = LZ4F_decompress(ctx, d, &dstSize, src + in, &srcSize, NULL);
		if (LZ4F_isError(hint)) { LZ4F_freeDecompressionContext(ctx); return -1; }
		if (out >= cap && dstSize > 0) { LZ4F_freeDecompressionContext(ctx); return -2; }
		in += srcSize; out += dstSize;
		if (srcSize == 0 && dstSize == 0) break; // no progress: input exhausted inside a frame
	}
	LZ4F_freeDecompressionContext(ctx);
	if (hint != 0) return -3; // frame not complete
	return (long)out;
}

static size_t vh_snappy_bound(size_t n) { return snappy_max_compressed_length(n); }

static long vh_snappy_compress(const unsigned char* src, size_t n, unsigned char* dst, size_t cap) {
	size_t out = cap;
	if (snappy_compress((const char*)src, n, (char*)dst, &out) != SNAPPY_OK) return -1;
	return (long)out;
}

// Returns the decoded length claimed by the block header, or -1.
static long long vh_snappy_len(const unsigned char* src, size_t n) {
	size_t l = 0;
	if (snappy_uncompressed_length((const char*)src, n, &l) != SNAPPY_OK) return -1;
	return (long long)l;
}

static long vh_snappy_decompress(const unsigned char* src, size_t n, unsigned char* dst, size_t cap) {
	size_t out = cap;
	snappy_status st = snappy_uncompress((const char*)src, n, (char*)dst, &out);
	if (st == SNAPPY_BUFFER_TOO_SMALL) return -2;
	if (st != SNAPPY_OK) return -1;
	return (long)out;
}

static size_t vh_zstd_bound(size_t n) { return ZSTD_compressBound(n); }

static long vh_zstd_compress(const unsigned char* src, size_t n, unsigned char* dst, size_t cap, int level) {
	size_t r = ZSTD_compress(dst, cap, src, n, level);
	if (ZSTD_isError(r)) return -1;
	return (long)r;
}

// Streaming decode of one or more concatenated frames (frames need not
// declare their content size).
static long vh_zstd_decompress(const unsigned char* src, size_t n, unsigned char* dst, size_t cap) {
	ZSTD_DStream* ds = ZSTD_createDStream();
	if (!ds) return -1;
	ZSTD_initDStream(ds);
	ZSTD_inBuffer in = { src, n, 0 };
	size_t produced = 0;
	unsigned char scratch[64];
	if (n == 0) { ZSTD_freeDStream(ds); return 0; } // zero frames
	for (;;) {
		ZSTD_outBuffer out;
		if (produced < cap) { out.dst = dst + produced; out.size = cap - produced; } else { out.dst = scratch; out.size = sizeof(scratch); }
		out.pos = 0;
		size_t inBefore = in.pos;
		size_t r = ZSTD_decompressStream(ds, &out, &in);
		if (ZSTD_isError(r)) { ZSTD_freeDStream(ds); return -1; }
		if (produced >= cap && out.pos > 0) { ZSTD_freeDStream(ds); return -2; }
		produced += out.pos;
		if (r == 0 && in.pos == in.size) break; // a frame ended exactly at the end of input
		if (out.pos == 0 && in.pos == inBefore) {
			// no progress: the input ran out inside a frame
			ZSTD_freeDStream(ds);
			return in.pos == in.size ? -3 : -1;
		}
	}
	ZSTD_freeDStream(ds);
	return (long)produced;
}
*/
import "C"

import (
	"bytes"
	"encoding/binary"
	"errors"
	"fmt"
	"unsafe"
)

// Kafka codec numbers.
const (
	None   = 0
	Gzip   = 1
	Snappy = 2
	LZ4    = 3
	Zstd   = 4
)

// Name returns the conventional codec name.
func Name(codec int) string {
	switch codec {
	case None:
		return "none"
	case Gzip:
		return "gzip"
	case Snappy:
		return "snappy"
	case LZ4:
		return "lz4"
	case Zstd:
		return "zstd"
	}
	return fmt.Sprintf("codec%d", codec)
}

var (
	// ErrTooLarge: the input decodes to more than maxOut bytes.
	ErrTooLarge = errors.New("ccodec: decompressed size exceeds the limit")
	// ErrCorrupt: the C library rejected the input.
	ErrCorrupt = errors.New("ccodec: corrupt input")
	// ErrTruncated: the input ends before the compressed stream does.
	ErrTruncated = errors.New("ccodec: truncated input")
	// ErrCodec: unknown codec number.
	ErrCodec = errors.New("ccodec: unknown codec")
)

func ptr(b []byte) *C.uchar {
	if len(b) == 0 {
		var z [1]byte
		return (*C.uchar)(unsafe.Pointer(&z[0]))
	}
	return (*C.uchar)(unsafe.Pointer(&b[0]))
}

func rc(n C.long, dst []byte) ([]byte, error) {
	switch {
	case n >= 0:
		return dst[:int(n):int(n)], nil
	case n == -2:
		return nil, ErrTooLarge
	case n == -3:
		return nil, ErrTruncated
	}
	return nil, ErrCorrupt
}

// XerialHeader is the 16-byte snappy-java stream header: magic
// 0x82 "SNAPPY" 0x00, then version 1 and minimum compatible version 1 as
// big-endian int32s.
var XerialHeader = []byte{0x82, 'S', 'N', 'A', 'P', 'P', 'Y', 0, 0, 0, 0, 1, 0, 0, 0, 1}

// XerialBlockSize is snappy-java's default block size.
const XerialBlockSize = 32 << 10

// Compress compresses src with the codec's default settings (gzip level 6,
// lz4 frame default, zstd level 3, snappy in xerial framing with 32 KiB
// blocks).
func Compress(codec int, src []byte) ([]byte, error) {
	return CompressLevel(codec, src, 0)
}

// CompressLevel is Compress with a codec-specific level; 0 selects the
// default. gzip: 1..9; lz4: 1..12 (>=3 is the HC encoder); zstd: 1..19 or
// negative; snappy ignores it.
func CompressLevel(codec int, src []byte, level int) ([]byte, error) {
	switch codec {
	case None:
		return append([]byte(nil), src...), nil
	case Gzip:
		if level == 0 {
			level = -1 // Z_DEFAULT_COMPRESSION
		}
		dst := make([]byte, int(C.vh_gzip_bound(C.size_t(len(src)))))
		return rc(C.vh_gzip_compress(ptr(src), C.size_t(len(src)), ptr(dst), C.size_t(len(dst)), C.int(level)), dst)
	case Snappy:
		return SnappyXerial(src, XerialBlockSize)
	case LZ4:
		dst := make([]byte, int(C.vh_lz4_bound(C.size_t(len(src)))))
		return rc(C.vh_lz4_compress(ptr(src), C.size_t(len(src)), ptr(dst), C.size_t(len(dst)), C.int(level), 1, 0), dst)
	case Zstd:
		if level == 0 {
			level = 3
		}
		dst := make([]byte, int(C.vh_zstd_bound(C.size_t(len(src)))))
		return rc(C.vh_zstd_compress(ptr(src), C.size_t(len(src)), ptr(dst), C.size_t(len(dst)), C.int(level)), dst)
	}
	return nil, ErrCodec
}

// LZ4Frame compresses src into one lz4 frame with explicit frame options
// (block-linked vs independent blocks, content checksum on/off).
func LZ4Frame(src []byte, level int, blockIndependent, contentChecksum bool) ([]byte, error) {
	bi, cc := 0, 0
	if blockIndependent {
		bi = 1
	}
	if contentChecksum {
		cc = 1
	}
	dst := make([]byte, int(C.vh_lz4_bound(C.size_t(len(src)))))
	return rc(C.vh_lz4_compress(ptr(src), C.size_t(len(src)), ptr(dst), C.size_t(len(dst)), C.int(level), C.int(bi), C.int(cc)), dst)
}

// SnappyRaw compresses src into one bare snappy block (no framing).
func SnappyRaw(src []byte) ([]byte, error) {
	dst := make([]byte, int(C.vh_snappy_bound(C.size_t(len(src)))))
	return rc(C.vh_snappy_compress(ptr(src), C.size_t(len(src)), ptr(dst), C.size_t(len(dst))), dst)
}

// SnappyXerial compresses src into the xerial stream framing, cutting src into
// blocks of blockSize bytes. An empty src yields the bare 16-byte header.
func SnappyXerial(src []byte, blockSize int) ([]byte, error) {
	if blockSize <= 0 {
		blockSize = XerialBlockSize
	}
	out := append([]byte(nil), XerialHeader...)
	for len(src) > 0 {
		n := min(len(src), blockSize)
		blk, err := SnappyRaw(src[:n])
		if err != nil {
			return nil, err
		}
		out = binary.BigEndian.AppendUint32(out, uint32(len(blk)))
		out = append(out, blk...)
		src = src[n:]
	}
	return out, nil
}

// IsXerial reports whether src begins with the xerial stream magic.
func IsXerial(src []byte) bool {
	return len(src) >= 16 && bytes.Equal(src[:8], XerialHeader[:8])
}

// SnappyDecodedLen returns the decoded length a bare snappy block claims.
func SnappyDecodedLen(src []byte) (int64, error) {
	n := C.vh_snappy_len(ptr(src), C.size_t(len(src)))
	if n < 0 {
		return 0, ErrCorrupt
	}
	return int64(n), nil
}

func snappyRawDecode(src []byte, maxOut int) ([]byte, error) {
	n, err := SnappyDecodedLen(src)
	if err != nil {
		return nil, err
	}
	if n > int64(maxOut) {
		return nil, ErrTooLarge
	}
	dst := make([]byte, int(n))
	return rc(C.vh_snappy_decompress(ptr(src), C.size_t(len(src)), ptr(dst), C.size_t(len(dst))), dst)
}

// Decompress decodes src, refusing to produce more than maxOut bytes
// (ErrTooLarge). gzip, lz4 and zstd accept concatenated members/frames;
// snappy accepts xerial framing or one bare block.
func Decompress(codec int, src []byte, maxOut int) ([]byte, error) {
	if maxOut < 0 {
		maxOut = 0
	}
	switch codec {
	case None:
		if len(src) > maxOut {
			return nil, ErrTooLarge
		}
		return append([]byte(nil), src...), nil
	case Snappy:
		if !IsXerial(src) {
			return snappyRawDecode(src, maxOut)
		}
		src = src[16:]
		out := []byte{}
		for len(src) > 0 {
			if len(src) < 4 {
				return nil, ErrTruncated
			}
			n := int(int32(binary.BigEndian.Uint32(src)))
			src = src[4:]
			if n < 0 {
				return nil, ErrCorrupt
			}
			if n > len(src) {
				return nil, ErrTruncated
			}
			blk, err := snappyRawDecode(src[:n], maxOut-len(out))
			if err != nil {
				return nil, err
			}
			out = append(out, blk...)
			src = src[n:]
		}
		return out, nil
	case Gzip, LZ4, Zstd:
		// Grow the destination geometrically up to maxOut so that a small
		// input with a huge limit does not allocate the limit up front.
		capN := min(maxOut, max(4*len(src)+4096, 64<<10))
		for {
			dst := make([]byte, capN)
			var n C.long
			switch codec {
			case Gzip:
				n = C.vh_gzip_decompress(ptr(src), C.size_t(len(src)), ptr(dst), C.size_t(capN))
			case LZ4:
				n = C.vh_lz4_decompress(ptr(src), C.size_t(len(src)), ptr(dst), C.size_t(capN))
			case Zstd:
				n = C.vh_zstd_decompress(ptr(src), C.size_t(len(src)), ptr(dst), C.size_t(capN))
			}
			if n == -2 && capN < maxOut {
				capN = min(maxOut, capN*4)
				continue
			}
			return rc(n, dst)
		}
	}
	return nil, ErrCodec
}
