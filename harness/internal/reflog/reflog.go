// Package reflog is an independent reference codec for the Kafka log format,
// written from the Kafka protocol documentation ("Messages and record
// batches", KIP-32, KIP-98) without using franz-go's kmsg/kgo/kbin:
//
//   - record batch v2 (magic 2), with its records, headers and control records;
//   - legacy message sets v0 / v1 (magic 0 / 1), including compressed wrapper
//     messages whose value is an inner message set;
//   - CRC-32C (Castagnoli) and CRC-32 (IEEE) computed with local tables;
//   - zig-zag varints.
//
// Compression goes through internal/reflog/ccodec (cgo bindings to the system
// C libraries), again independent of the Go codec libraries franz-go links.
//
// Two directions are offered. Encode / EncodeAll build wire bytes from a
// Batch description (chosen offsets, producer id/epoch/sequence,
// transactional/control flags, codec, compaction gaps), so a caller knows the
// expected records by construction. DecodeBatches reads wire bytes (for
// example the RecordBatches of a Fetch response, or a kfake segment) back
// into []Batch, tolerating a truncated trailing batch.
//
// One Batch is one top-level entry of the log: a v2 record batch, or one
// top-level legacy message (which holds one record, or - when it is a
// compressed wrapper - an inner message set).
package reflog

import (
	"encoding/binary"
	"errors"
	"fmt"

	"verifharness/internal/reflog/ccodec"
)

// Kafka compression codec numbers (attribute bits 0-2).
const (
	CodecNone   = ccodec.None
	CodecGzip   = ccodec.Gzip
	CodecSnappy = ccodec.Snappy
	CodecLZ4    = ccodec.LZ4
	CodecZstd   = ccodec.Zstd
)

// Attribute bits of a v2 batch.
const (
	AttrCodecMask     = 0x07
	AttrLogAppendTime = 0x08 // timestampType: 0 CreateTime, 1 LogAppendTime (also in v1 messages)
	AttrTransactional = 0x10
	AttrControl       = 0x20
)

// Control record types (second int16 of a control record's key).
const (
	ControlAbort  = 0
	ControlCommit = 1
)

// NoTimestamp is the timestamp of a magic-0 message, which has none.
const NoTimestamp = -1

// BatchV2Overhead is the size of a v2 batch without its records payload.
const BatchV2Overhead = 61

// Header is one record header. A nil Value is a null value.
type Header struct {
	Key   string
	Value []byte
}

// Record is one log record with its absolute offset and effective timestamp.
type Record struct {
	// Offset is the absolute offset.
	Offset int64
	// Timestamp in milliseconds as the format defines it: v2 CreateTime:
	// baseTimestamp+delta; v2 LogAppendTime: the batch maxTimestamp; v1:
	// the message timestamp (the wrapper's when the wrapper is
	// LogAppendTime, KIP-32); v0: NoTimestamp.
	Timestamp int64
	// Key and Value; nil is null (a null Value is a tombstone).
	Key, Value []byte
	// Headers (v2 only).
	Headers []Header
	// Attributes is the record-level attribute byte (v2: unused, 0) or
	// the legacy message's own attribute byte.
	Attributes int8
	// TimestampDelta is the stored v2 delta. Encode uses it instead of
	// Timestamp-BaseTimestamp when the batch is LogAppendTime.
	TimestampDelta int64
}

// Batch is one top-level log entry. Fields marked (dec) are filled by the
// decoder only; everything else is both consumed by Encode and produced by
// DecodeBatches.
type Batch struct {
	// Magic: 0, 1 (legacy message) or 2 (record batch).
	Magic int8
	// BaseOffset: v2 baseOffset. Legacy: offset of the first record
	// (ignored by Encode, which takes offsets from Records).
	BaseOffset int64
	// LastOffsetDelta: v2 field; may exceed the last record's delta after
	// compaction. Legacy (dec): last record offset - first record offset.
	LastOffsetDelta int32
	// PartitionLeaderEpoch: v2 field; -1 for legacy.
	PartitionLeaderEpoch int32
	// Codec is the compression codec. A legacy Batch with Codec != 0 is a
	// compressed wrapper message.
	Codec int
	// LogAppendTime is attribute bit 3 (v1, v2).
	LogAppendTime bool
	// Transactional and Control are v2 attribute bits 4 and 5.
	Transactional, Control bool
	// BaseTimestamp, MaxTimestamp: v2 fields. For a v1 message/wrapper
	// MaxTimestamp is the (wrapper) message's own timestamp field.
	BaseTimestamp, MaxTimestamp int64
	// ProducerID, ProducerEpoch, BaseSequence: v2 fields (-1 for legacy).
	ProducerID    int64
	ProducerEpoch int16
	BaseSequence  int32
	// NumRecords (dec): the declared record count of a v2 batch; for
	// legacy the number of records found.
	NumRecords int32
	// Records in log order. Empty for a fully compacted v2 batch.
	Records []Record
	// WrapperOffset: the offset field of a legacy top-level message. For
	// a wrapper Encode uses it when SetWrapperOffset is true, otherwise
	// the last record's offset (what brokers write).
	WrapperOffset    int64
	SetWrapperOffset bool
	// InnerMagic (dec): the magic of a wrapper's inner messages. Encode
	// uses it instead of Magic for the inner messages only when
	// SetInnerMagic is true (a magic-1 wrapper around magic-0 messages).
	InnerMagic    int8
	SetInnerMagic bool
	// Attributes (dec): the raw attributes field as stored.
	Attributes int16
	// CRC (dec): the stored checksum.
	CRC uint32
	// Length (dec): wire size of this entry including its 12-byte prefix.
	Length int
}

// LastOffset returns the last offset the batch covers: baseOffset +
// lastOffsetDelta for v2, the last record's offset for legacy entries.
func (b *Batch) LastOffset() int64 {
	if b.Magic == 2 {
		return b.BaseOffset + int64(b.LastOffsetDelta)
	}
	if n := len(b.Records); n > 0 {
		return b.Records[n-1].Offset
	}
	return b.WrapperOffset
}

// ControlType returns the control record type (ControlAbort/ControlCommit)
// of a control batch's first record; ok is false when the batch is not a
// control batch or the key is too short.
func (b *Batch) ControlType() (typ int16, ok bool) {
	if !b.Control || len(b.Records) == 0 {
		return 0, false
	}
	_, typ, ok = ParseControlKey(b.Records[0].Key)
	return typ, ok
}

// ---------------------------------------------------------------------------
// primitives

var crcCastagnoli, crcIEEE [256]uint32

func init() {
	mk := func(t *[256]uint32, poly uint32) {
		for i := range t {
			c := uint32(i)
			for k := 0; k < 8; k++ {
				if c&1 != 0 {
					c = c>>1 ^ poly
				} else {
					c >>= 1
				}
			}
			t[i] = c
		}
	}
	mk(&crcCastagnoli, 0x82F63B78) // reflected 0x1EDC6F41
	mk(&crcIEEE, 0xEDB88320)       // reflected 0x04C11DB7
}

func crc(t *[256]uint32, b []byte) uint32 {
	c := ^uint32(0)
	for _, x := range b {
		c = t[byte(c)^x] ^ c>>8
	}
	return ^c
}

// CRC32C is CRC-32C (Castagnoli), the checksum of v2 batches.
func CRC32C(b []byte) uint32 { return crc(&crcCastagnoli, b) }

// CRC32 is CRC-32 (IEEE 802.3), the checksum of legacy messages.
func CRC32(b []byte) uint32 { return crc(&crcIEEE, b) }

// AppendUvarint appends an unsigned LEB128.
func AppendUvarint(dst []byte, u uint64) []byte {
	for u >= 0x80 {
		dst = append(dst, byte(u)|0x80)
		u >>= 7
	}
	return append(dst, byte(u))
}

// AppendVarint appends a zig-zag varint (32-bit range).
func AppendVarint(dst []byte, v int32) []byte {
	return AppendUvarint(dst, uint64(uint32(v<<1)^uint32(v>>31)))
}

// AppendVarlong appends a zig-zag varlong.
func AppendVarlong(dst []byte, v int64) []byte {
	return AppendUvarint(dst, uint64(v<<1)^uint64(v>>63))
}

// ReadUvarint reads an unsigned LEB128 of at most maxBytes bytes; n == 0
// means short input, n < 0 overlong.
func ReadUvarint(b []byte, maxBytes int) (u uint64, n int) {
	for i := 0; i < maxBytes; i++ {
		if i >= len(b) {
			return 0, 0
		}
		u |= uint64(b[i]&0x7f) << (7 * uint(i))
		if b[i]&0x80 == 0 {
			return u, i + 1
		}
	}
	return 0, -1
}

// ReadVarint reads a zig-zag varint.
func ReadVarint(b []byte) (int32, int) {
	u, n := ReadUvarint(b, 5)
	if n <= 0 {
		return 0, n
	}
	x := uint32(u)
	return int32(x>>1) ^ -int32(x&1), n
}

// ReadVarlong reads a zig-zag varlong.
func ReadVarlong(b []byte) (int64, int) {
	u, n := ReadUvarint(b, 10)
	if n <= 0 {
		return 0, n
	}
	return int64(u>>1) ^ -int64(u&1), n
}

// ControlKey builds a control record key: version int16, type int16.
func ControlKey(version, typ int16) []byte {
	return []byte{byte(version >> 8), byte(version), byte(typ >> 8), byte(typ)}
}

// ParseControlKey splits a control record key.
func ParseControlKey(key []byte) (version, typ int16, ok bool) {
	if len(key) < 4 {
		return 0, 0, false
	}
	return int16(binary.BigEndian.Uint16(key)), int16(binary.BigEndian.Uint16(key[2:])), true
}

// EndTxnMarkerValue builds the value of a transaction marker: version int16,
// coordinatorEpoch int32.
func EndTxnMarkerValue(version int16, coordinatorEpoch int32) []byte {
	b := []byte{byte(version >> 8), byte(version)}
	return binary.BigEndian.AppendUint32(b, uint32(coordinatorEpoch))
}

// ControlBatch describes a transaction marker batch (commit or abort) for
// producer pid/epoch at offset.
func ControlBatch(offset int64, pid int64, epoch int16, typ int16, timestamp int64, coordinatorEpoch int32) Batch {
	return Batch{
		Magic: 2, BaseOffset: offset, PartitionLeaderEpoch: 0,
		Transactional: true, Control: true,
		BaseTimestamp: timestamp, MaxTimestamp: timestamp,
		ProducerID: pid, ProducerEpoch: epoch, BaseSequence: -1,
		Records: []Record{{Offset: offset, Timestamp: timestamp, Key: ControlKey(0, typ), Value: EndTxnMarkerValue(0, coordinatorEpoch)}},
	}
}

// ---------------------------------------------------------------------------
// encoding

// EncodeOptions tune Encode, mostly to build unusual or hostile inputs. The
// zero value gives a well-formed entry.
type EncodeOptions struct {
	// Compress replaces ccodec.Compress (for example to choose raw snappy
	// or another lz4 frame layout). It is given the codec and the
	// uncompressed payload.
	Compress func(codec int, payload []byte) ([]byte, error)
	// NumRecords overrides the declared v2 record count.
	NumRecords *int32
	// RawRecords replaces the encoded v2 records payload (before
	// compression) or the legacy wrapper's inner message set.
	RawRecords []byte
	// ExtraAttributes is ORed into the attributes field.
	ExtraAttributes int16
	// CorruptCRC stores a wrong checksum.
	CorruptCRC bool
}

func (o *EncodeOptions) compress(codec int, p []byte) ([]byte, error) {
	if o != nil && o.Compress != nil {
		return o.Compress(codec, p)
	}
	return ccodec.Compress(codec, p)
}

func appendBytesVar(dst, b []byte) []byte {
	if b == nil {
		return AppendVarint(dst, -1)
	}
	dst = AppendVarint(dst, int32(len(b)))
	return append(dst, b...)
}

func appendBytes32(dst, b []byte) []byte {
	if b == nil {
		return append(dst, 0xff, 0xff, 0xff, 0xff)
	}
	dst = binary.BigEndian.AppendUint32(dst, uint32(len(b)))
	return append(dst, b...)
}

// EncodeRecordV2 encodes one v2 record (with its length prefix) relative to
// baseOffset / baseTimestamp.
func EncodeRecordV2(dst []byte, r *Record, baseOffset, baseTimestamp int64, logAppendTime bool) []byte {
	var body []byte
	body = append(body, byte(r.Attributes))
	if logAppendTime {
		body = AppendVarlong(body, r.TimestampDelta)
	} else {
		body = AppendVarlong(body, r.Timestamp-baseTimestamp)
	}
	body = AppendVarint(body, int32(r.Offset-baseOffset))
	body = appendBytesVar(body, r.Key)
	body = appendBytesVar(body, r.Value)
	body = AppendVarint(body, int32(len(r.Headers)))
	for _, h := range r.Headers {
		body = AppendVarint(body, int32(len(h.Key)))
		body = append(body, h.Key...)
		body = appendBytesVar(body, h.Value)
	}
	dst = AppendVarint(dst, int32(len(body)))
	return append(dst, body...)
}

// EncodeRecordsV2 encodes the uncompressed records payload of a v2 batch.
func EncodeRecordsV2(b *Batch) []byte {
	var p []byte
	for i := range b.Records {
		p = EncodeRecordV2(p, &b.Records[i], b.BaseOffset, b.BaseTimestamp, b.LogAppendTime)
	}
	return p
}

// EncodeMessage encodes one legacy message (magic 0 or 1) with the given
// offset field, attribute byte, timestamp (magic 1 only), key and value.
func EncodeMessage(dst []byte, magic int8, offset int64, attrs int8, timestamp int64, key, value []byte) []byte {
	var body []byte // magic..value, what the crc covers
	body = append(body, byte(magic), byte(attrs))
	if magic >= 1 {
		body = binary.BigEndian.AppendUint64(body, uint64(timestamp))
	}
	body = appendBytes32(body, key)
	body = appendBytes32(body, value)
	dst = binary.BigEndian.AppendUint64(dst, uint64(offset))
	dst = binary.BigEndian.AppendUint32(dst, uint32(4+len(body)))
	dst = binary.BigEndian.AppendUint32(dst, CRC32(body))
	return append(dst, body...)
}

// Encode builds the wire bytes of one Batch.
//
// v2: offsets/timestamps of Records are stored as deltas against BaseOffset /
// BaseTimestamp; LastOffsetDelta, MaxTimestamp and the producer fields are
// stored as given; the declared count is len(Records) unless overridden.
//
// Legacy, Codec == 0: every record becomes one top-level message (so a Batch
// with n records encodes n entries). Legacy, Codec != 0: one wrapper message
// whose value is the compressed inner message set; inner offsets are absolute
// for magic 0 and relative to the first record for magic 1, and the wrapper
// carries the last record's offset (magic 1: and MaxTimestamp).
func Encode(b *Batch, o *EncodeOptions) ([]byte, error) {
	if o == nil {
		o = &EncodeOptions{}
	}
	switch b.Magic {
	case 2:
		return encodeV2(b, o)
	case 0, 1:
		return encodeLegacy(b, o)
	}
	return nil, fmt.Errorf("reflog: cannot encode magic %d", b.Magic)
}

// EncodeAll concatenates the encodings of batches (default options) and
// returns the end position of every batch in the output.
func EncodeAll(batches []Batch) (out []byte, ends []int, err error) {
	for i := range batches {
		raw, err := Encode(&batches[i], nil)
		if err != nil {
			return nil, nil, err
		}
		out = append(out, raw...)
		ends = append(ends, len(out))
	}
	return out, ends, nil
}

func (b *Batch) attrs(o *EncodeOptions) int16 {
	a := int16(b.Codec & AttrCodecMask)
	if b.LogAppendTime {
		a |= AttrLogAppendTime
	}
	if b.Transactional {
		a |= AttrTransactional
	}
	if b.Control {
		a |= AttrControl
	}
	return a | o.ExtraAttributes
}

func encodeV2(b *Batch, o *EncodeOptions) ([]byte, error) {
	payload := o.RawRecords
	if payload == nil {
		payload = EncodeRecordsV2(b)
	}
	if b.Codec != CodecNone {
		var err error
		if payload, err = o.compress(b.Codec, payload); err != nil {
			return nil, err
		}
	}
	n := int32(len(b.Records))
	if o.NumRecords != nil {
		n = *o.NumRecords
	}
	// attributes .. end: what the crc covers
	var body []byte
	body = binary.BigEndian.AppendUint16(body, uint16(b.attrs(o)))
	body = binary.BigEndian.AppendUint32(body, uint32(b.LastOffsetDelta))
	body = binary.BigEndian.AppendUint64(body, uint64(b.BaseTimestamp))
	body = binary.BigEndian.AppendUint64(body, uint64(b.MaxTimestamp))
	body = binary.BigEndian.AppendUint64(body, uint64(b.ProducerID))
	body = binary.BigEndian.AppendUint16(body, uint16(b.ProducerEpoch))
	body = binary.BigEndian.AppendUint32(body, uint32(b.BaseSequence))
	body = binary.BigEndian.AppendUint32(body, uint32(n))
	body = append(body, payload...)
	sum := CRC32C(body)
	if o.CorruptCRC {
		sum ^= 0x5a5a5a5a
	}
	var out []byte
	out = binary.BigEndian.AppendUint64(out, uint64(b.BaseOffset))
	out = binary.BigEndian.AppendUint32(out, uint32(4+1+4+len(body))) // leaderEpoch + magic + crc + body
	out = binary.BigEndian.AppendUint32(out, uint32(b.PartitionLeaderEpoch))
	out = append(out, 2)
	out = binary.BigEndian.AppendUint32(out, sum)
	return append(out, body...), nil
}

func encodeLegacy(b *Batch, o *EncodeOptions) ([]byte, error) {
	tsAttr := int8(0)
	if b.LogAppendTime && b.Magic == 1 {
		tsAttr = AttrLogAppendTime
	}
	extra := int8(o.ExtraAttributes)
	if b.Codec == CodecNone {
		var out []byte
		for i := range b.Records {
			r := &b.Records[i]
			out = EncodeMessage(out, b.Magic, r.Offset, r.Attributes|tsAttr|extra, r.Timestamp, r.Key, r.Value)
		}
		if o.CorruptCRC && len(out) > 12 {
			out[12] ^= 0x5a
		}
		return out, nil
	}
	inner := o.RawRecords
	innerMagic := b.Magic
	if b.SetInnerMagic {
		innerMagic = b.InnerMagic
	}
	if inner == nil {
		if len(b.Records) == 0 {
			return nil, errors.New("reflog: a wrapper message needs at least one record")
		}
		first := b.Records[0].Offset
		for i := range b.Records {
			r := &b.Records[i]
			off := r.Offset // magic 0: absolute
			if b.Magic == 1 {
				off = r.Offset - first
			}
			inner = EncodeMessage(inner, innerMagic, off, r.Attributes, r.Timestamp, r.Key, r.Value)
		}
	}
	val, err := o.compress(b.Codec, inner)
	if err != nil {
		return nil, err
	}
	if val == nil {
		val = []byte{}
	}
	woff := b.WrapperOffset
	if !b.SetWrapperOffset {
		woff = 0
		if n := len(b.Records); n > 0 {
			woff = b.Records[n-1].Offset
		}
	}
	out := EncodeMessage(nil, b.Magic, woff, int8(b.Codec&AttrCodecMask)|tsAttr|extra, b.MaxTimestamp, nil, val)
	if o.CorruptCRC {
		out[12] ^= 0x5a
	}
	return out, nil
}

// ---------------------------------------------------------------------------
// decoding

// DecodeOptions tune DecodeBatches.
type DecodeOptions struct {
	// SkipCRC disables checksum verification.
	SkipCRC bool
	// MaxDecompressed bounds one batch's decompressed payload (default
	// 256 MiB).
	MaxDecompressed int
}

// ErrCorrupt wraps every structural decoding error.
var ErrCorrupt = errors.New("reflog: corrupt log data")

func corrupt(pos int, format string, a ...any) error {
	return fmt.Errorf("%w at byte %d: %s", ErrCorrupt, pos, fmt.Sprintf(format, a...))
}

// DecodeBatches decodes data as a sequence of top-level log entries.
//
// It returns the entries that are completely present and valid, and the
// number of bytes they occupy. A trailing entry cut short by the end of data
// (what a broker may send at the end of a Fetch response) is not an error:
// decoding stops before it, so consumed < len(data) and err == nil. A
// complete entry that is invalid (bad checksum, unknown magic, malformed
// records, undecodable compressed payload, ...) stops decoding with an error
// wrapping ErrCorrupt; the entries before it are still returned.
func DecodeBatches(data []byte) (batches []Batch, consumed int, err error) {
	return DecodeBatchesOpts(data, DecodeOptions{})
}

// DecodeBatchesOpts is DecodeBatches with options.
func DecodeBatchesOpts(data []byte, o DecodeOptions) (batches []Batch, consumed int, err error) {
	if o.MaxDecompressed <= 0 {
		o.MaxDecompressed = 256 << 20
	}
	pos := 0
	for len(data)-pos >= 12 {
		length := int32(binary.BigEndian.Uint32(data[pos+8:]))
		if length < 0 {
			return batches, pos, corrupt(pos, "negative length %d", length)
		}
		total := 12 + int(length)
		if len(data)-pos < total {
			break // truncated trailing entry
		}
		if total < 17 {
			return batches, pos, corrupt(pos, "entry of %d bytes has no magic byte", total)
		}
		entry := data[pos : pos+total]
		var b Batch
		switch magic := int8(entry[16]); magic {
		case 2:
			b, err = decodeV2(entry, pos, &o)
		case 0, 1:
			b, err = decodeLegacyTop(entry, pos, &o)
		default:
			err = corrupt(pos, "unknown magic %d", magic)
		}
		if err != nil {
			return batches, pos, err
		}
		b.Length = total
		batches = append(batches, b)
		pos += total
	}
	return batches, pos, nil
}

func decodeV2(e []byte, pos int, o *DecodeOptions) (Batch, error) {
	var b Batch
	if len(e) < BatchV2Overhead {
		return b, corrupt(pos, "record batch of %d bytes is shorter than its %d-byte header", len(e), BatchV2Overhead)
	}
	b.Magic = 2
	b.BaseOffset = int64(binary.BigEndian.Uint64(e))
	b.PartitionLeaderEpoch = int32(binary.BigEndian.Uint32(e[12:]))
	b.CRC = binary.BigEndian.Uint32(e[17:])
	if !o.SkipCRC {
		if got := CRC32C(e[21:]); got != b.CRC {
			return b, corrupt(pos, "crc32c mismatch: stored %08x computed %08x", b.CRC, got)
		}
	}
	b.Attributes = int16(binary.BigEndian.Uint16(e[21:]))
	b.Codec = int(b.Attributes & AttrCodecMask)
	b.LogAppendTime = b.Attributes&AttrLogAppendTime != 0
	b.Transactional = b.Attributes&AttrTransactional != 0
	b.Control = b.Attributes&AttrControl != 0
	b.LastOffsetDelta = int32(binary.BigEndian.Uint32(e[23:]))
	b.BaseTimestamp = int64(binary.BigEndian.Uint64(e[27:]))
	b.MaxTimestamp = int64(binary.BigEndian.Uint64(e[35:]))
	b.ProducerID = int64(binary.BigEndian.Uint64(e[43:]))
	b.ProducerEpoch = int16(binary.BigEndian.Uint16(e[51:]))
	b.BaseSequence = int32(binary.BigEndian.Uint32(e[53:]))
	b.NumRecords = int32(binary.BigEndian.Uint32(e[57:]))
	payload := e[61:]
	if b.NumRecords < 0 {
		return b, corrupt(pos, "negative record count %d", b.NumRecords)
	}
	if b.Codec != CodecNone {
		if b.Codec > CodecZstd {
			return b, corrupt(pos, "unknown codec %d", b.Codec)
		}
		var err error
		if payload, err = ccodec.Decompress(b.Codec, payload, o.MaxDecompressed); err != nil {
			return b, corrupt(pos, "%s payload: %v", ccodec.Name(b.Codec), err)
		}
	}
	recs, rest, err := DecodeRecordsV2(payload, int(b.NumRecords), b.BaseOffset, b.BaseTimestamp, b.MaxTimestamp, b.LogAppendTime)
	if err != nil {
		return b, corrupt(pos, "%v", err)
	}
	if rest != 0 {
		return b, corrupt(pos, "%d bytes left after %d records", rest, b.NumRecords)
	}
	b.Records = recs
	return b, nil
}

// DecodeRecordsV2 decodes exactly n v2 records from an uncompressed records
// payload and returns how many bytes are left over.
func DecodeRecordsV2(p []byte, n int, baseOffset, baseTimestamp, maxTimestamp int64, logAppendTime bool) (recs []Record, rest int, err error) {
	if n > len(p) { // every record takes at least one byte
		return nil, len(p), fmt.Errorf("%d records declared in %d bytes", n, len(p))
	}
	recs = make([]Record, 0, n)
	for i := 0; i < n; i++ {
		l, used := ReadVarint(p)
		if used <= 0 || l < 0 || int(l) > len(p)-used {
			return recs, len(p), fmt.Errorf("record %d of %d: bad or short length", i, n)
		}
		body := p[used : used+int(l)]
		p = p[used+int(l):]
		r, err := decodeRecordBody(body)
		if err != nil {
			return recs, len(p), fmt.Errorf("record %d of %d: %v", i, n, err)
		}
		r.Offset += baseOffset
		if logAppendTime {
			r.Timestamp = maxTimestamp
		} else {
			r.Timestamp = baseTimestamp + r.TimestampDelta
		}
		recs = append(recs, r)
	}
	return recs, len(p), nil
}

func decodeRecordBody(b []byte) (Record, error) {
	var r Record
	short := errors.New("short record")
	if len(b) < 1 {
		return r, short
	}
	r.Attributes = int8(b[0])
	b = b[1:]
	ts, n := ReadVarlong(b)
	if n <= 0 {
		return r, short
	}
	b = b[n:]
	r.TimestampDelta = ts
	od, n := ReadVarint(b)
	if n <= 0 {
		return r, short
	}
	b = b[n:]
	r.Offset = int64(od)
	nullable := func() ([]byte, error) {
		l, n := ReadVarint(b)
		if n <= 0 {
			return nil, short
		}
		b = b[n:]
		if l < 0 {
			return nil, nil
		}
		if int(l) > len(b) {
			return nil, short
		}
		v := append([]byte{}, b[:l]...)
		b = b[l:]
		return v, nil
	}
	var err error
	if r.Key, err = nullable(); err != nil {
		return r, err
	}
	if r.Value, err = nullable(); err != nil {
		return r, err
	}
	nh, n := ReadVarint(b)
	if n <= 0 {
		return r, short
	}
	b = b[n:]
	if nh < 0 || int(nh) > len(b) {
		return r, errors.New("bad header count")
	}
	for i := 0; i < int(nh); i++ {
		kl, n := ReadVarint(b)
		if n <= 0 || kl < 0 || int(kl) > len(b)-n {
			return r, errors.New("bad header key")
		}
		k := string(b[n : n+int(kl)])
		b = b[n+int(kl):]
		v, err := nullable()
		if err != nil {
			return r, err
		}
		r.Headers = append(r.Headers, Header{k, v})
	}
	if len(b) != 0 {
		return r, fmt.Errorf("%d bytes left inside the record", len(b))
	}
	return r, nil
}

type legacyMsg struct {
	offset    int64
	magic     int8
	attrs     int8
	timestamp int64
	key, val  []byte
	crc       uint32
}

// decodeMessage decodes one complete legacy message e (offset + size + body).
func decodeMessage(e []byte, pos int, o *DecodeOptions) (legacyMsg, error) {
	var m legacyMsg
	if len(e) < 12+4+1+1+4+4 {
		return m, corrupt(pos, "message of %d bytes is too short", len(e))
	}
	m.offset = int64(binary.BigEndian.Uint64(e))
	m.crc = binary.BigEndian.Uint32(e[12:])
	if !o.SkipCRC {
		if got := CRC32(e[16:]); got != m.crc {
			return m, corrupt(pos, "crc32 mismatch: stored %08x computed %08x", m.crc, got)
		}
	}
	m.magic = int8(e[16])
	m.attrs = int8(e[17])
	b := e[18:]
	m.timestamp = NoTimestamp
	if m.magic == 1 {
		if len(b) < 8 {
			return m, corrupt(pos, "message v1 without room for a timestamp")
		}
		m.timestamp = int64(binary.BigEndian.Uint64(b))
		b = b[8:]
	} else if m.magic != 0 {
		return m, corrupt(pos, "unknown message magic %d", m.magic)
	}
	get := func() ([]byte, error) {
		if len(b) < 4 {
			return nil, corrupt(pos, "short message")
		}
		l := int32(binary.BigEndian.Uint32(b))
		b = b[4:]
		if l < 0 {
			if l != -1 {
				return nil, corrupt(pos, "negative bytes length %d", l)
			}
			return nil, nil
		}
		if int(l) > len(b) {
			return nil, corrupt(pos, "bytes length %d beyond message", l)
		}
		v := append([]byte{}, b[:l]...)
		b = b[l:]
		return v, nil
	}
	var err error
	if m.key, err = get(); err != nil {
		return m, err
	}
	if m.val, err = get(); err != nil {
		return m, err
	}
	if len(b) != 0 {
		return m, corrupt(pos, "%d bytes left inside the message", len(b))
	}
	return m, nil
}

func decodeLegacyTop(e []byte, pos int, o *DecodeOptions) (Batch, error) {
	b := Batch{PartitionLeaderEpoch: -1, ProducerID: -1, ProducerEpoch: -1, BaseSequence: -1}
	m, err := decodeMessage(e, pos, o)
	if err != nil {
		return b, err
	}
	b.Magic = m.magic
	b.InnerMagic = m.magic
	b.CRC = m.crc
	b.Attributes = int16(uint8(m.attrs))
	b.Codec = int(m.attrs & AttrCodecMask)
	b.LogAppendTime = m.magic == 1 && m.attrs&AttrLogAppendTime != 0
	b.WrapperOffset = m.offset
	b.MaxTimestamp = m.timestamp
	b.BaseTimestamp = m.timestamp
	if b.Codec == CodecNone {
		b.BaseOffset = m.offset
		b.NumRecords = 1
		b.Records = []Record{{Offset: m.offset, Timestamp: m.timestamp, Key: m.key, Value: m.val, Attributes: m.attrs}}
		return b, nil
	}
	if b.Codec > CodecZstd {
		return b, corrupt(pos, "unknown codec %d", b.Codec)
	}
	if m.val == nil {
		return b, corrupt(pos, "compressed wrapper with a null value")
	}
	inner, err := ccodec.Decompress(b.Codec, m.val, o.MaxDecompressed)
	if err != nil {
		return b, corrupt(pos, "%s wrapper value: %v", ccodec.Name(b.Codec), err)
	}
	var msgs []legacyMsg
	ip := 0
	for len(inner)-ip > 0 {
		if len(inner)-ip < 12 {
			return b, corrupt(pos, "inner message set: %d trailing bytes", len(inner)-ip)
		}
		l := int32(binary.BigEndian.Uint32(inner[ip+8:]))
		if l < 0 || int(l) > len(inner)-ip-12 {
			return b, corrupt(pos, "inner message set: message length %d beyond the set", l)
		}
		im, err := decodeMessage(inner[ip:ip+12+int(l)], pos, o)
		if err != nil {
			return b, fmt.Errorf("inner message %d: %w", len(msgs), err)
		}
		if im.attrs&AttrCodecMask != 0 {
			return b, corrupt(pos, "nested compressed message")
		}
		msgs = append(msgs, im)
		ip += 12 + int(l)
	}
	if len(msgs) == 0 {
		return b, corrupt(pos, "empty inner message set")
	}
	// KIP-31: in a magic-1 wrapper the inner offsets are relative and the
	// wrapper holds the absolute offset of the last inner message; in a
	// magic-0 wrapper inner offsets are absolute.
	var base int64
	if m.magic == 1 {
		base = m.offset - msgs[len(msgs)-1].offset
	}
	b.InnerMagic = msgs[0].magic
	for _, im := range msgs {
		r := Record{Offset: base + im.offset, Timestamp: im.timestamp, Key: im.key, Value: im.val, Attributes: im.attrs}
		// KIP-32: a LogAppendTime wrapper's timestamp overrides the inner ones.
		if b.LogAppendTime && im.magic == 1 {
			r.Timestamp = m.timestamp
		}
		b.Records = append(b.Records, r)
	}
	b.NumRecords = int32(len(b.Records))
	b.BaseOffset = b.Records[0].Offset
	b.LastOffsetDelta = int32(b.Records[len(b.Records)-1].Offset - b.BaseOffset)
	return b, nil
}
