package reflog

import (
	"bytes"
	"encoding/hex"
	"os/exec"
	"reflect"
	"testing"

	"verifharness/internal/reflog/ccodec"
)

// Vectors below do not come from franz-go: CRC check values are the
// catalogue ones, compressed inputs are produced by the gzip/zstd/lz4 CLIs,
// and the two log entries are assembled by hand from the protocol guide.

func TestCRCCheckValues(t *testing.T) {
	if got := CRC32C([]byte("123456789")); got != 0xE3069283 {
		t.Fatalf("crc32c check value: %08x", got)
	}
	if got := CRC32([]byte("123456789")); got != 0xCBF43926 {
		t.Fatalf("crc32 check value: %08x", got)
	}
	if CRC32C(nil) != 0 || CRC32(nil) != 0 {
		t.Fatal("crc of empty input must be 0")
	}
}

func TestVarints(t *testing.T) {
	// protobuf documentation vectors for zig-zag: 0->0, -1->1, 1->2, -2->3, 2147483647->4294967294, -2147483648->4294967295
	for _, c := range []struct {
		v   int32
		hex string
	}{{0, "00"}, {-1, "01"}, {1, "02"}, {-2, "03"}, {150, "ac02"}, {2147483647, "feffffff0f"}, {-2147483648, "ffffffff0f"}} {
		got := hex.EncodeToString(AppendVarint(nil, c.v))
		if got != c.hex {
			t.Fatalf("varint %d: %s want %s", c.v, got, c.hex)
		}
		b, _ := hex.DecodeString(c.hex)
		if v, n := ReadVarint(b); v != c.v || n != len(b) {
			t.Fatalf("read varint %s: %d,%d", c.hex, v, n)
		}
	}
	if got := hex.EncodeToString(AppendVarlong(nil, -9223372036854775808)); got != "ffffffffffffffffff01" {
		t.Fatalf("varlong min: %s", got)
	}
	if v, n := ReadVarlong([]byte{0xff, 0xff, 0xff, 0xff, 0xff, 0xff, 0xff, 0xff, 0xff, 0x01}); v != -9223372036854775808 || n != 10 {
		t.Fatalf("read varlong min: %d %d", v, n)
	}
	if _, n := ReadVarint([]byte{0x80}); n != 0 {
		t.Fatal("short varint accepted")
	}
	if _, n := ReadVarint([]byte{0x80, 0x80, 0x80, 0x80, 0x80, 0x01}); n >= 0 {
		t.Fatal("overlong varint accepted")
	}
}

func cli(t *testing.T, in []byte, name string, args ...string) []byte {
	t.Helper()
	path, err := exec.LookPath(name)
	if err != nil {
		t.Skipf("%s CLI not found", name)
	}
	cmd := exec.Command(path, args...)
	cmd.Stdin = bytes.NewReader(in)
	var out, stderr bytes.Buffer
	cmd.Stdout, cmd.Stderr = &out, &stderr
	if err := cmd.Run(); err != nil {
		t.Fatalf("%s %v: %v: %s", name, args, err, stderr.String())
	}
	return out.Bytes()
}

func payloads() [][]byte {
	big := make([]byte, 300_000)
	x := uint32(12345)
	for i := range big {
		x = x*1664525 + 1013904223
		if i%7 < 3 {
			big[i] = byte(x >> 24)
		} else {
			big[i] = "kafka log format "[i%17]
		}
	}
	return [][]byte{[]byte("a"), []byte("hello hello hello hello hello world"), bytes.Repeat([]byte{0}, 100_000), big}
}

func TestCodecsAgainstCLIs(t *testing.T) {
	for _, p := range payloads() {
		// CLI compresses, ccodec decompresses
		for _, c := range []struct {
			codec int
			name  string
			args  []string
		}{
			{ccodec.Gzip, "gzip", []string{"-c", "-6"}},
			{ccodec.Zstd, "zstd", []string{"-c", "-q", "-3"}},
			{ccodec.LZ4, "lz4", []string{"-c", "-q"}},
		} {
			z := cli(t, p, c.name, c.args...)
			got, err := ccodec.Decompress(c.codec, z, len(p))
			if err != nil || !bytes.Equal(got, p) {
				t.Fatalf("%s: CLI output of %d bytes did not decode: %v (%d bytes)", c.name, len(p), err, len(got))
			}
			if len(p) > 1 {
				if _, err := ccodec.Decompress(c.codec, z, len(p)-1); err != ccodec.ErrTooLarge {
					t.Fatalf("%s: limit len-1 gave %v", c.name, err)
				}
				if _, err := ccodec.Decompress(c.codec, z[:len(z)-3], len(p)); err == nil {
					t.Fatalf("%s: truncated input accepted", c.name)
				}
			}
			// two concatenated members/frames
			got, err = ccodec.Decompress(c.codec, append(append([]byte{}, z...), z...), 2*len(p))
			if err != nil || !bytes.Equal(got, append(append([]byte{}, p...), p...)) {
				t.Fatalf("%s: concatenated streams: %v", c.name, err)
			}
			// ccodec compresses, CLI decompresses
			mine, err := ccodec.Compress(c.codec, p)
			if err != nil {
				t.Fatal(err)
			}
			back := cli(t, mine, c.name, "-d", "-c", "-q")
			if !bytes.Equal(back, p) {
				t.Fatalf("%s CLI did not decode ccodec output (%d bytes)", c.name, len(p))
			}
		}
		// snappy: no CLI; hand-made literal-only block is the external vector (below), here round trip
		for _, bs := range []int{0, 7, 1 << 10} {
			x, err := ccodec.SnappyXerial(p, bs)
			if err != nil {
				t.Fatal(err)
			}
			got, err := ccodec.Decompress(ccodec.Snappy, x, len(p))
			if err != nil || !bytes.Equal(got, p) {
				t.Fatalf("xerial round trip bs=%d: %v", bs, err)
			}
			if len(p) > 1 {
				if _, err := ccodec.Decompress(ccodec.Snappy, x, len(p)-1); err != ccodec.ErrTooLarge {
					t.Fatalf("xerial limit: %v", err)
				}
			}
		}
		raw, _ := ccodec.SnappyRaw(p)
		got, err := ccodec.Decompress(ccodec.Snappy, raw, len(p))
		if err != nil || !bytes.Equal(got, p) {
			t.Fatalf("raw snappy round trip: %v", err)
		}
	}
	// snappy format description: varint length 5, literal tag (len-1)<<2 = 0x10, bytes
	got, err := ccodec.Decompress(ccodec.Snappy, []byte{5, 0x10, 'h', 'e', 'l', 'l', 'o'}, 100)
	if err != nil || string(got) != "hello" {
		t.Fatalf("hand-made snappy block: %q %v", got, err)
	}
	// the same block in hand-made xerial framing
	x := append(append([]byte{}, ccodec.XerialHeader...), 0, 0, 0, 7, 5, 0x10, 'h', 'e', 'l', 'l', 'o')
	got, err = ccodec.Decompress(ccodec.Snappy, x, 100)
	if err != nil || string(got) != "hello" {
		t.Fatalf("hand-made xerial: %q %v", got, err)
	}
	// RFC 1952: the canonical empty gzip member decodes to nothing
	empty, _ := hex.DecodeString("1f8b08000000000000030300000000000000000000")
	empty = empty[:20]
	if got, err := ccodec.Decompress(ccodec.Gzip, empty, 10); err != nil || len(got) != 0 {
		t.Fatalf("empty gzip member: %v %d", err, len(got))
	}
}

// A v2 batch assembled by hand, byte by byte, from the protocol guide.
func TestHandBuiltBatchV2(t *testing.T) {
	// records payload: one record, attrs 0, tsDelta 0, offsetDelta 0, key "k" (len 1), value "vv", 1 header "h"->null
	rec := []byte{
		0x00,            // attributes
		0x00,            // timestamp delta 0
		0x00,            // offset delta 0
		0x02, 'k',       // key length 1 (zig-zag 2)
		0x04, 'v', 'v',  // value length 2
		0x02,            // 1 header
		0x02, 'h', 0x01, // header key "h", value null (-1 => zig-zag 1)
	}
	payload := append([]byte{byte(len(rec) << 1)}, rec...)
	body := []byte{
		0x00, 0x10, // attributes: transactional
		0x00, 0x00, 0x00, 0x02, // lastOffsetDelta 2 (compacted tail)
		0x00, 0x00, 0x00, 0x00, 0x00, 0x00, 0x03, 0xe8, // baseTimestamp 1000
		0x00, 0x00, 0x00, 0x00, 0x00, 0x00, 0x03, 0xe9, // maxTimestamp 1001
		0x00, 0x00, 0x00, 0x00, 0x00, 0x00, 0x00, 0x2a, // producerId 42
		0x00, 0x07, // producerEpoch 7
		0x00, 0x00, 0x00, 0x05, // baseSequence 5
		0x00, 0x00, 0x00, 0x01, // numRecords 1
	}
	body = append(body, payload...)
	sum := CRC32C(body)
	wire := []byte{0, 0, 0, 0, 0, 0, 0, 100} // baseOffset 100
	l := 4 + 1 + 4 + len(body)
	wire = append(wire, byte(l>>24), byte(l>>16), byte(l>>8), byte(l))
	wire = append(wire, 0, 0, 0, 9) // leader epoch 9
	wire = append(wire, 2)          // magic
	wire = append(wire, byte(sum>>24), byte(sum>>16), byte(sum>>8), byte(sum))
	wire = append(wire, body...)

	bs, n, err := DecodeBatches(wire)
	if err != nil || n != len(wire) || len(bs) != 1 {
		t.Fatalf("decode: %v n=%d batches=%d", err, n, len(bs))
	}
	b := bs[0]
	if b.BaseOffset != 100 || b.LastOffsetDelta != 2 || b.LastOffset() != 102 || !b.Transactional || b.Control || b.ProducerID != 42 ||
		b.ProducerEpoch != 7 || b.BaseSequence != 5 || b.PartitionLeaderEpoch != 9 || b.NumRecords != 1 || b.MaxTimestamp != 1001 {
		t.Fatalf("header: %+v", b)
	}
	want := Record{Offset: 100, Timestamp: 1000, Key: []byte("k"), Value: []byte("vv"), Headers: []Header{{"h", nil}}}
	if !reflect.DeepEqual(b.Records, []Record{want}) {
		t.Fatalf("records: %+v", b.Records)
	}
	// the encoder produces the same bytes
	enc, err := Encode(&Batch{Magic: 2, BaseOffset: 100, LastOffsetDelta: 2, PartitionLeaderEpoch: 9, Transactional: true,
		BaseTimestamp: 1000, MaxTimestamp: 1001, ProducerID: 42, ProducerEpoch: 7, BaseSequence: 5, Records: []Record{want}}, nil)
	if err != nil || !bytes.Equal(enc, wire) {
		t.Fatalf("encoder differs from hand-built bytes:\n%x\n%x", enc, wire)
	}
	// every strict prefix is a truncated trailing batch: nothing decoded, nothing consumed, no error
	for k := 0; k < len(wire); k++ {
		bs, n, err := DecodeBatches(wire[:k])
		if err != nil || n != 0 || len(bs) != 0 {
			t.Fatalf("prefix %d: %v %d %d", k, err, n, len(bs))
		}
	}
	// a flipped payload bit is a crc error
	bad := append([]byte{}, wire...)
	bad[len(bad)-1] ^= 1
	if _, _, err := DecodeBatches(bad); err == nil {
		t.Fatal("corrupt batch accepted")
	}
	// two batches + half of a third
	three := append(append(append([]byte{}, wire...), wire...), wire[:30]...)
	bs, n, err = DecodeBatches(three)
	if err != nil || len(bs) != 2 || n != 2*len(wire) {
		t.Fatalf("two and a half: %v %d %d", err, len(bs), n)
	}
}

// A legacy v1 wrapper assembled by hand around a gzip CLI-compressed inner set.
func TestHandBuiltLegacyWrapper(t *testing.T) {
	msg := func(magic byte, off uint64, attrs byte, ts uint64, key, val []byte) []byte {
		body := []byte{magic, attrs}
		if magic == 1 {
			for s := 56; s >= 0; s -= 8 {
				body = append(body, byte(ts>>uint(s)))
			}
		}
		for _, f := range [][]byte{key, val} {
			if f == nil {
				body = append(body, 0xff, 0xff, 0xff, 0xff)
				continue
			}
			body = append(body, byte(len(f)>>24), byte(len(f)>>16), byte(len(f)>>8), byte(len(f)))
			body = append(body, f...)
		}
		var out []byte
		for s := 56; s >= 0; s -= 8 {
			out = append(out, byte(off>>uint(s)))
		}
		l := 4 + len(body)
		out = append(out, byte(l>>24), byte(l>>16), byte(l>>8), byte(l))
		sum := CRC32(body)
		out = append(out, byte(sum>>24), byte(sum>>16), byte(sum>>8), byte(sum))
		return append(out, body...)
	}
	// inner relative offsets 0,1,3 (2 was compacted away); wrapper offset 53 => absolute 50,51,53
	inner := append(append(msg(1, 0, 0, 111, []byte("a"), []byte("A")), msg(1, 1, 0, 222, nil, []byte("B"))...), msg(1, 3, 0, 333, []byte("c"), nil)...)
	z := cli(t, inner, "gzip", "-c")
	wire := msg(1, 53, 1, 333, nil, z)
	// followed by a plain v0 message at offset 54
	wire = append(wire, msg(0, 54, 0, 0, []byte("k0"), []byte("v0"))...)
	bs, n, err := DecodeBatches(wire)
	if err != nil || n != len(wire) || len(bs) != 2 {
		t.Fatalf("decode: %v n=%d of %d, %d entries", err, n, len(wire), len(bs))
	}
	want := []Record{
		{Offset: 50, Timestamp: 111, Key: []byte("a"), Value: []byte("A")},
		{Offset: 51, Timestamp: 222, Key: nil, Value: []byte("B")},
		{Offset: 53, Timestamp: 333, Key: []byte("c"), Value: nil},
	}
	if !reflect.DeepEqual(bs[0].Records, want) || bs[0].Codec != CodecGzip || bs[0].Magic != 1 || bs[0].WrapperOffset != 53 {
		t.Fatalf("wrapper: %+v", bs[0])
	}
	if r := bs[1].Records; len(r) != 1 || r[0].Offset != 54 || r[0].Timestamp != NoTimestamp || string(r[0].Key) != "k0" || bs[1].Magic != 0 {
		t.Fatalf("v0 message: %+v", bs[1])
	}
	// encoder round trip through every codec and both magics
	for _, magic := range []int8{0, 1} {
		for _, codec := range []int{CodecNone, CodecGzip, CodecSnappy, CodecLZ4} {
			recs := append([]Record{}, want...)
			if magic == 0 {
				for i := range recs {
					recs[i].Timestamp = NoTimestamp
				}
			}
			raw, err := Encode(&Batch{Magic: magic, Codec: codec, MaxTimestamp: 333, Records: recs}, nil)
			if err != nil {
				t.Fatal(err)
			}
			bs, n, err := DecodeBatches(raw)
			if err != nil || n != len(raw) {
				t.Fatalf("magic %d codec %d: %v", magic, codec, err)
			}
			var got []Record
			for _, b := range bs {
				got = append(got, b.Records...)
			}
			if !reflect.DeepEqual(got, recs) {
				t.Fatalf("magic %d codec %d: %+v", magic, codec, got)
			}
		}
	}
}

func TestEncodeDecodeV2AllCodecs(t *testing.T) {
	recs := []Record{
		{Offset: 10, Timestamp: 5000, Key: []byte("k1"), Value: bytes.Repeat([]byte("v"), 1000)},
		{Offset: 12, Timestamp: 4990, Key: nil, Value: nil, Headers: []Header{{"a", []byte{}}, {"", nil}, {"b", []byte("x")}}},
		{Offset: 17, Timestamp: 5100, Key: []byte{}, Value: []byte{}},
	}
	for codec := CodecNone; codec <= CodecZstd; codec++ {
		b := Batch{Magic: 2, BaseOffset: 10, LastOffsetDelta: 9, Codec: codec, BaseTimestamp: 5000, MaxTimestamp: 5100,
			ProducerID: -1, ProducerEpoch: -1, BaseSequence: -1, PartitionLeaderEpoch: 3, Records: recs}
		raw, err := Encode(&b, nil)
		if err != nil {
			t.Fatal(err)
		}
		bs, n, err := DecodeBatches(raw)
		if err != nil || n != len(raw) || len(bs) != 1 {
			t.Fatalf("codec %d: %v", codec, err)
		}
		got := bs[0]
		for i := range got.Records {
			got.Records[i].TimestampDelta = 0
		}
		if !reflect.DeepEqual(got.Records, recs) || got.Codec != codec || got.LastOffset() != 19 {
			t.Fatalf("codec %d: %+v", codec, got)
		}
	}
	// log append time: every record reports maxTimestamp
	b := Batch{Magic: 2, BaseOffset: 10, LastOffsetDelta: 7, LogAppendTime: true, BaseTimestamp: 1, MaxTimestamp: 777, Records: recs}
	raw, _ := Encode(&b, nil)
	bs, _, err := DecodeBatches(raw)
	if err != nil || bs[0].Records[1].Timestamp != 777 || !bs[0].LogAppendTime {
		t.Fatalf("log append time: %v %+v", err, bs)
	}
	// control batch helper
	cb := ControlBatch(20, 42, 3, ControlAbort, 9, 1)
	raw, _ = Encode(&cb, nil)
	bs, _, err = DecodeBatches(raw)
	if typ, ok := bs[0].ControlType(); err != nil || !ok || typ != ControlAbort || !bs[0].Control || !bs[0].Transactional {
		t.Fatalf("control batch: %v %+v", err, bs)
	}
	// empty (fully compacted) batch keeps its offset range
	eb := Batch{Magic: 2, BaseOffset: 30, LastOffsetDelta: 4, ProducerID: -1, ProducerEpoch: -1, BaseSequence: -1}
	raw, _ = Encode(&eb, nil)
	bs, n, err := DecodeBatches(raw)
	if err != nil || n != BatchV2Overhead || len(bs[0].Records) != 0 || bs[0].LastOffset() != 34 {
		t.Fatalf("empty batch: %v %+v", err, bs)
	}
}
