// Package vh is the shared runtime of every property check: seed and tier
// handling, the three-valued verdict, known-findings matching, evidence and
// replay files, and the VIOLATION / KNOWN-FINDING output lines.
package vh

import (
	"encoding/json"
	"fmt"
	"hash/fnv"
	"math/rand/v2"
	"os"
	"path/filepath"
	"sort"
	"strconv"
	"sync"
	"testing"
	"time"
)

// Root is /verif: where known_findings.json lives.
func Root() string {
	if r := os.Getenv("VERIF_ROOT"); r != "" {
		return r
	}
	return "/verif"
}

// Out is where evidence/ and replays/ are written (VERIF_OUT, default Root).
func Out() string {
	if r := os.Getenv("VERIF_OUT"); r != "" {
		return r
	}
	return Root()
}

// Repo is the source tree the check was built against (VERIF_REPO, default
// /repo); checks that read source or definition files at run time use it.
func Repo() string {
	if r := os.Getenv("VERIF_REPO"); r != "" {
		return r
	}
	return "/repo"
}

type finding struct {
	Property  string `json:"property"`
	Status    string `json:"status"` // "known" or "fixed"
	Signature string `json:"signature"`
	What      string `json:"what"`
	Commit    string `json:"commit,omitempty"`
}

type violation struct {
	Sig    string `json:"signature"`
	Detail any    `json:"detail"`
	Replay string `json:"replay"`
}

// Run accumulates what one check execution observed.
type Run struct {
	T     *testing.T
	ID    string
	Tier  string
	Seed  int64
	start time.Time

	mu         sync.Mutex
	evals      int64
	distinct   map[string]struct{}
	samples    []any
	maxSamples int
	counters   map[string]int64
	extra      map[string]any
	viols      []violation
	knownHits  map[string]string
	inconcl    []string
	findings   []finding
}

// Start begins a check for property id. Tier comes from VERIF_TIER (quick by
// default) and the seed from VERIF_SEED (1 by default).
func Start(t *testing.T, id string) *Run {
	r := &Run{
		T: t, ID: id, Tier: "quick", Seed: 1, start: time.Now(),
		distinct: map[string]struct{}{}, counters: map[string]int64{},
		extra: map[string]any{}, knownHits: map[string]string{}, maxSamples: 5,
	}
	if v := os.Getenv("VERIF_TIER"); v == "thorough" {
		r.Tier = v
	}
	if v := os.Getenv("VERIF_SEED"); v != "" {
		if n, err := strconv.ParseInt(v, 10, 64); err == nil {
			r.Seed = n
		}
	}
	if raw, err := os.ReadFile(filepath.Join(Root(), "known_findings.json")); err == nil {
		var all struct {
			Findings []finding `json:"findings"`
		}
		if err := json.Unmarshal(raw, &all); err != nil {
			t.Fatalf("known_findings.json: %v", err)
		}
		for _, f := range all.Findings {
			if f.Property == id {
				r.findings = append(r.findings, f)
			}
		}
	}
	return r
}

func (r *Run) Quick() bool    { return r.Tier == "quick" }
func (r *Run) Thorough() bool { return r.Tier == "thorough" }

// Pick returns q in the quick tier and th in the thorough tier.
func (r *Run) Pick(q, th int) int {
	if r.Quick() {
		return q
	}
	return th
}

// Rand returns a PRNG that is a pure function of (seed, stream, idx).
func (r *Run) Rand(stream string, idx int) *rand.Rand {
	h := fnv.New64a()
	fmt.Fprintf(h, "%s/%d/%d", stream, r.Seed, idx)
	return rand.New(rand.NewPCG(uint64(r.Seed), h.Sum64()))
}

// Eval counts n judged cases.
func (r *Run) Eval(n int) {
	r.mu.Lock()
	r.evals += int64(n)
	r.mu.Unlock()
}

// Distinct records one non-trivial case under its distinctness key.
func (r *Run) Distinct(key string) {
	r.mu.Lock()
	if len(r.distinct) < 1<<20 {
		r.distinct[key] = struct{}{}
	}
	r.mu.Unlock()
}

// DistinctHash is Distinct for large keys.
func (r *Run) DistinctHash(parts ...any) {
	h := fnv.New64a()
	fmt.Fprint(h, parts...)
	r.Distinct(strconv.FormatUint(h.Sum64(), 36))
}

// Sample keeps the first few cases, written out.
func (r *Run) Sample(v any) {
	r.mu.Lock()
	if len(r.samples) < r.maxSamples {
		r.samples = append(r.samples, v)
	}
	r.mu.Unlock()
}

// WantSample reports whether another sample would be kept.
func (r *Run) WantSample() bool {
	r.mu.Lock()
	defer r.mu.Unlock()
	return len(r.samples) < r.maxSamples
}

// Count adds n to a named counter reported in the evidence.
func (r *Run) Count(name string, n int) {
	r.mu.Lock()
	r.counters[name] += int64(n)
	r.mu.Unlock()
}

func (r *Run) Counter(name string) int64 {
	r.mu.Lock()
	defer r.mu.Unlock()
	return r.counters[name]
}

// Set stores an extra coverage key.
func (r *Run) Set(name string, v any) {
	r.mu.Lock()
	r.extra[name] = v
	r.mu.Unlock()
}

// Violation records a refutation. sig identifies WHAT failed (input, call
// site or history shape) and is what known_findings.json matches exactly;
// detail is the witness written to the replay file.
func (r *Run) Violation(sig string, detail any) {
	r.mu.Lock()
	defer r.mu.Unlock()
	for _, f := range r.findings {
		if f.Status == "known" && f.Signature == sig {
			r.knownHits[sig] = f.What
			return
		}
	}
	for _, v := range r.viols {
		if v.Sig == sig {
			return
		}
	}
	if len(r.viols) >= 20 {
		return
	}
	dir := filepath.Join(Out(), "replays")
	os.MkdirAll(dir, 0o755)
	path := filepath.Join(dir, fmt.Sprintf("%s-%s-%d-%d.json", r.ID, r.Tier, r.Seed, len(r.viols)))
	raw, err := json.MarshalIndent(map[string]any{
		"property": r.ID, "tier": r.Tier, "seed": r.Seed, "signature": sig, "detail": detail,
	}, "", " ")
	if err != nil {
		raw = []byte(fmt.Sprintf("{\"property\":%q,\"signature\":%q,\"detail\":%q}", r.ID, sig, fmt.Sprint(detail)))
	}
	os.WriteFile(path, raw, 0o644)
	r.viols = append(r.viols, violation{sig, detail, path})
	fmt.Printf("VIOLATION property=%s replay=%s\n", r.ID, path)
	fmt.Printf("  signature: %s\n", sig)
}

// Violations returns how many unlisted violations were recorded so far.
func (r *Run) Violations() int {
	r.mu.Lock()
	defer r.mu.Unlock()
	return len(r.viols)
}

// Inconclusive records that part of the run could not be judged.
func (r *Run) Inconclusive(reason string) {
	r.mu.Lock()
	if len(r.inconcl) < 50 {
		r.inconcl = append(r.inconcl, reason)
	}
	r.counters["inconclusive"]++
	r.mu.Unlock()
}

// Finish writes the evidence file and sets the test result. level is the
// MANIFEST level category, rule the statement of how cases are generated and
// what makes one distinct and non-trivial.
func (r *Run) Finish(level, rule string, assumptions ...string) {
	r.mu.Lock()
	defer r.mu.Unlock()
	cov := map[string]any{
		"evaluations":         r.evals,
		"distinct_nontrivial": len(r.distinct),
		"rule":                rule,
		"samples":             r.samples,
	}
	keys := make([]string, 0, len(r.counters))
	for k := range r.counters {
		keys = append(keys, k)
	}
	sort.Strings(keys)
	obs := map[string]int64{}
	for _, k := range keys {
		obs[k] = r.counters[k]
	}
	cov["observed"] = obs
	for k, v := range r.extra {
		cov[k] = v
	}
	if len(r.inconcl) > 0 {
		cov["inconclusive_reasons"] = r.inconcl
	}
	if len(r.knownHits) > 0 {
		cov["known_findings_hit"] = r.knownHits
	}
	ev := map[string]any{
		"property_id": r.ID,
		"tier":        r.Tier,
		"seed":        r.Seed,
		"level":       level,
		"coverage":    cov,
		"assumptions": assumptions,
		"wall_s":      time.Since(r.start).Seconds(),
		"violations":  len(r.viols),
	}
	for sig, what := range r.knownHits {
		fmt.Printf("KNOWN-FINDING: property=%s %s [%s]\n", r.ID, what, sig)
	}
	raw, err := json.MarshalIndent(ev, "", " ")
	if err != nil {
		r.T.Fatalf("evidence marshal: %v", err)
	}
	if os.Getenv("VERIF_NO_EVIDENCE") == "" {
		dir := filepath.Join(Out(), "evidence")
		os.MkdirAll(dir, 0o755)
		if err := os.WriteFile(filepath.Join(dir, r.ID+".json"), raw, 0o644); err != nil {
			r.T.Fatalf("evidence write: %v", err)
		}
	}
	fmt.Printf("EVIDENCE property=%s tier=%s seed=%d evaluations=%d distinct_nontrivial=%d violations=%d known=%d inconclusive=%d wall=%.1fs\n",
		r.ID, r.Tier, r.Seed, r.evals, len(r.distinct), len(r.viols), len(r.knownHits), r.counters["inconclusive"], time.Since(r.start).Seconds())
	if len(r.viols) > 0 {
		r.T.Fail()
		return
	}
	if r.evals == 0 || len(r.distinct) < 2 {
		fmt.Printf("INCONCLUSIVE property=%s observed too little (evaluations=%d distinct_nontrivial=%d)\n", r.ID, r.evals, len(r.distinct))
		r.T.Fail()
	}
}

// Parallel runs fn(i) for i in [0,n) on up to workers goroutines.
func Parallel(n, workers int, fn func(i int)) {
	if workers < 1 {
		workers = 1
	}
	var wg sync.WaitGroup
	ch := make(chan int)
	for w := 0; w < workers; w++ {
		wg.Add(1)
		go func() {
			defer wg.Done()
			for i := range ch {
				fn(i)
			}
		}()
	}
	for i := 0; i < n; i++ {
		ch <- i
	}
	close(ch)
	wg.Wait()
}

// Catch runs fn and returns a non-nil value if it panicked.
func Catch(fn func()) (p any) {
	defer func() { p = recover() }()
	fn()
	return nil
}

// C41Obs prints the observation line the C41 driver aggregates: how many
// concurrent executions ran and which API pairs were seen overlapping.
func C41Obs(runs int, overlaps []string, sample any) {
	raw, _ := json.Marshal(map[string]any{"runs": runs, "overlaps": overlaps, "sample": sample})
	fmt.Printf("C41OBS %s\n", raw)
}
