package smoke

import (
	"context"
	"testing"

	"github.com/anishathalye/porcupine"
	"github.com/twmb/franz-go/pkg/kadm"
	"github.com/twmb/franz-go/pkg/kfake"
	"github.com/twmb/franz-go/pkg/kgo"
	"github.com/twmb/franz-go/pkg/sr"
	"github.com/twmb/franz-go/plugin/kotel"
)

var _ = porcupine.Ok
var _ = sr.Serde{}
var _ = kotel.NewRecordCarrier

func TestSmoke(t *testing.T) {
	c, err := kfake.NewCluster(kfake.NumBrokers(3), kfake.SeedTopics(4, "t"))
	if err != nil {
		t.Fatal(err)
	}
	defer c.Close()
	cl, err := kgo.NewClient(kgo.SeedBrokers(c.ListenAddrs()...), kgo.DefaultProduceTopic("t"), kgo.ConsumeTopics("t"))
	if err != nil {
		t.Fatal(err)
	}
	defer cl.Close()
	if err := cl.ProduceSync(context.Background(), kgo.StringRecord("x")).FirstErr(); err != nil {
		t.Fatal(err)
	}
	fs := cl.PollFetches(context.Background())
	if fs.NumRecords() != 1 {
		t.Fatal("bad")
	}
	_ = kadm.NewClient(cl)
}
