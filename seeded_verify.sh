#!/bin/bash
# usage: seeded_verify.sh <property> <name> <worktree> [extra checks...]
# Confirms a seeded defect (demo fails with the patch, passes without, tree builds, touched package tests
# unchanged), stores it under /verif/seeded/<name>/, then runs the property's check against /repo+patch.
set -u
P=$1; NAME=$2; WT=$3; shift 3
export GOFLAGS=-mod=mod GOPROXY=off GOSUMDB=off GOTOOLCHAIN=local
D=/verif/seeded/$NAME; mkdir -p $D
cd $WT || exit 1
cp seeded_demo/patch.diff $D/patch.diff
mkdir -p $D/demo; cp seeded_demo/*.go seeded_demo/go.mod $D/demo/ 2>/dev/null
run_demo() { (cd $WT/seeded_demo && if ls *_test.go >/dev/null 2>&1; then timeout 300 go1.26.8 test -count=1 ./... ; else timeout 300 go1.26.8 run . ; fi) > /tmp/demo.$NAME.$1.log 2>&1; echo $?; }
git apply -R --check seeded_demo/patch.diff 2>/dev/null || git apply seeded_demo/patch.diff
WITH=$(run_demo with)
git apply -R seeded_demo/patch.diff
WITHOUT=$(run_demo without)
git apply seeded_demo/patch.diff
BUILD=0; (go1.26.8 build ./... && go1.26.8 vet ./pkg/kgo/ ) >/tmp/demo.$NAME.build.log 2>&1 || BUILD=1
echo "demo exit with patch=$WITH without=$WITHOUT build=$BUILD"
# run the checks against the worktree itself (it has the patch applied); /repo is not touched, so
# other runs can go on concurrently. (For the record the same was also done via git apply to /repo
# for the first wave.)
# worktrees created before a later fix: commit landed in /repo get those fixes too (the checks judge
# the seeded change, not defects /repo no longer has); BASE_FIXES lists patch files to try.
for f in ${BASE_FIXES:-}; do
  (cd $WT && git apply --check $f 2>/dev/null && git apply $f && echo "applied base fix $(basename $f)")
done
RES=""
for C in $P "$@"; do
  cd /verif && OUT=$(VERIF_REPO=$WT VERIF_OUT=/tmp/seedout-$NAME ./check $C quick 2>&1); RC=$?
  SIGS=$(grep -h "signature:" /tmp/seedout-$NAME/logs/$C.quick.log 2>/dev/null | sed 's/^ *signature: //' | sort -u | head -5 | tr '\n' ';')
  echo "check $C -> exit $RC  $SIGS"
  RES="$RES{\"check\":\"$C\",\"exit\":$RC,\"signatures\":\"$SIGS\"},"
done
rm -rf /tmp/seedout-$NAME
cat > $D/result.json <<EOJ
{"demo_exit_with_patch": $WITH, "demo_exit_without_patch": $WITHOUT, "build_and_vet_failed": $BUILD, "checks": [${RES%,}]}
EOJ
