#!/bin/bash
# MANIFEST.setup_cmd: offline build of the harness (files on disk only) and warm-up of the Go build cache.
set -e
cd "$(dirname "$0")"
mkdir -p bin logs evidence replays
./check --build-all
