#!/bin/bash
# usage: sweep.sh [seed] [tier]  -- runs every registered check once, prints a table
SEED=${1:-1}; TIER=${2:-quick}
cd "$(dirname "$0")"
IDS=$(python3 -c "
import sys; sys.path.insert(0,'.')
from checks_table import CHECKS
print(' '.join(sorted(CHECKS)))")
mkdir -p logs
for id in $IDS; do
  t0=$(date +%s)
  VERIF_SEED=$SEED ./check $id $TIER > logs/sweep.$id.$SEED.out 2>&1; rc=$?
  t1=$(date +%s)
  echo "$id seed=$SEED rc=$rc $((t1-t0))s $(grep -c '^KNOWN-FINDING' logs/sweep.$id.$SEED.out) known $(grep -h '^VIOLATION\|^INCONCLUSIVE\|^BROKEN' logs/sweep.$id.$SEED.out | head -2 | tr '\n' ' ')"
done
