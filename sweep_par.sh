#!/bin/bash
# usage: sweep_par.sh [seed] [tier] [jobs] [ids...] -- like sweep.sh, several checks side by side
SEED=${1:-1}; TIER=${2:-quick}; JOBS=${3:-3}; shift 3 2>/dev/null
cd "$(dirname "$0")"
IDS="$*"
[ -z "$IDS" ] && IDS=$(python3 -c "
import sys; sys.path.insert(0,'.')
from checks_table import CHECKS
print(' '.join(sorted(CHECKS)))")
mkdir -p logs
one() {
  id=$1; t0=$(date +%s)
  VERIF_SEED=$SEED ./check $id $TIER > logs/sweep.$id.$SEED.$TIER.out 2>&1; rc=$?
  t1=$(date +%s)
  echo "$id seed=$SEED tier=$TIER rc=$rc $((t1-t0))s $(grep -c '^KNOWN-FINDING' logs/sweep.$id.$SEED.$TIER.out) known $(grep -h '^VIOLATION\|^INCONCLUSIVE\|^BROKEN' logs/sweep.$id.$SEED.$TIER.out | head -2 | tr '\n' ' ')"
}
export -f one; export SEED TIER
./check --build-all >/dev/null 2>&1
echo $IDS | tr ' ' '\n' | xargs -P $JOBS -I{} bash -c 'one {}'
